// Package vos is a drop-in replacement for package "os" used by a rewritten
// scratch copy of the reftable package (import specs only are rewritten, see
// /verif/tools/rewrite). With no scheduler installed every call forwards to the
// real os package. With a scheduler installed (engine A) every hooked call made by
// a virtual process is a yield point: the process publishes the pending operation,
// hands the token to the scheduler and parks until it is chosen to perform it.
package vos

import (
	"time"
	"errors"
	"io"
	"io/fs"
	"os"
)

// ---- re-exported surface of package os -----------------------------------------

type (
	FileInfo     = os.FileInfo
	FileMode     = os.FileMode
	DirEntry     = os.DirEntry
	PathError    = os.PathError
	LinkError    = os.LinkError
	SyscallError = os.SyscallError
	ProcAttr     = os.ProcAttr
	Process      = os.Process
	ProcessState = os.ProcessState
	Signal       = os.Signal
)

const (
	O_RDONLY = os.O_RDONLY
	O_WRONLY = os.O_WRONLY
	O_RDWR   = os.O_RDWR
	O_APPEND = os.O_APPEND
	O_CREATE = os.O_CREATE
	O_EXCL   = os.O_EXCL
	O_SYNC   = os.O_SYNC
	O_TRUNC  = os.O_TRUNC

	SEEK_SET = os.SEEK_SET
	SEEK_CUR = os.SEEK_CUR
	SEEK_END = os.SEEK_END

	PathSeparator     = os.PathSeparator
	PathListSeparator = os.PathListSeparator
	DevNull           = os.DevNull

	ModeDir        = os.ModeDir
	ModeAppend     = os.ModeAppend
	ModeExclusive  = os.ModeExclusive
	ModeTemporary  = os.ModeTemporary
	ModeSymlink    = os.ModeSymlink
	ModeDevice     = os.ModeDevice
	ModeNamedPipe  = os.ModeNamedPipe
	ModeSocket     = os.ModeSocket
	ModeSetuid     = os.ModeSetuid
	ModeSetgid     = os.ModeSetgid
	ModeCharDevice = os.ModeCharDevice
	ModeSticky     = os.ModeSticky
	ModeIrregular  = os.ModeIrregular
	ModeType       = os.ModeType
	ModePerm       = os.ModePerm
)

var (
	ErrInvalid          = os.ErrInvalid
	ErrPermission       = os.ErrPermission
	ErrExist            = os.ErrExist
	ErrNotExist         = os.ErrNotExist
	ErrClosed           = os.ErrClosed
	ErrNoDeadline       = os.ErrNoDeadline
	ErrDeadlineExceeded = os.ErrDeadlineExceeded
	ErrProcessDone      = os.ErrProcessDone

	Interrupt = os.Interrupt
	Kill      = os.Kill

	Args = os.Args

	Stdin  = &File{File: os.Stdin}
	Stdout = &File{File: os.Stdout}
	Stderr = &File{File: os.Stderr}
)

func Chdir(dir string) error                         { return os.Chdir(dir) }
func Chmod(name string, mode FileMode) error         { return os.Chmod(name, mode) }
func Chown(name string, uid, gid int) error          { return os.Chown(name, uid, gid) }
func Chtimes(name string, a, m time.Time) error      { return os.Chtimes(name, a, m) }
func Clearenv()                                      { os.Clearenv() }
func DirFS(dir string) fs.FS                         { return os.DirFS(dir) }
func Environ() []string                              { return os.Environ() }
func Executable() (string, error)                    { return os.Executable() }
func Exit(code int)                                  { os.Exit(code) }
func Expand(s string, m func(string) string) string  { return os.Expand(s, m) }
func ExpandEnv(s string) string                      { return os.ExpandEnv(s) }
func Getegid() int                                   { return os.Getegid() }
func Getenv(key string) string                       { return os.Getenv(key) }
func Geteuid() int                                   { return os.Geteuid() }
func Getgid() int                                    { return os.Getgid() }
func Getgroups() ([]int, error)                      { return os.Getgroups() }
func Getpagesize() int                               { return os.Getpagesize() }
func Getpid() int                                    { return os.Getpid() }
func Getppid() int                                   { return os.Getppid() }
func Getuid() int                                    { return os.Getuid() }
func Getwd() (string, error)                         { return os.Getwd() }
func Hostname() (string, error)                      { return os.Hostname() }
func IsExist(err error) bool                         { return os.IsExist(err) }
func IsNotExist(err error) bool                      { return os.IsNotExist(err) }
func IsPathSeparator(c uint8) bool                   { return os.IsPathSeparator(c) }
func IsPermission(err error) bool                    { return os.IsPermission(err) }
func IsTimeout(err error) bool                       { return os.IsTimeout(err) }
func Lchown(name string, uid, gid int) error         { return os.Lchown(name, uid, gid) }
func LookupEnv(key string) (string, bool)            { return os.LookupEnv(key) }
func NewSyscallError(s string, err error) error      { return os.NewSyscallError(s, err) }
func Readlink(name string) (string, error)           { return os.Readlink(name) }
func SameFile(a, b FileInfo) bool                    { return os.SameFile(uncoarse(a), uncoarse(b)) }

// MtimeGranularity > 0: every FileInfo the code under test obtains reports its modification
// time truncated to this granularity - a file system with coarse time stamps (one-second
// or two-second granularity, or a kernel that stamps files with the time of the last timer
// tick), on which files written shortly after each other carry EQUAL time stamps. Set by
// the harness for some scenarios; the sandbox's own file systems have nanosecond stamps.
var MtimeGranularity time.Duration

type coarseInfo struct {
	os.FileInfo
	g time.Duration
}

func (c coarseInfo) ModTime() time.Time { return c.FileInfo.ModTime().Truncate(c.g) }

// Coarsen applies MtimeGranularity to a FileInfo (used by the sibling shim packages too).
func Coarsen(fi os.FileInfo) os.FileInfo {
	if fi == nil || MtimeGranularity <= 0 {
		return fi
	}
	return coarseInfo{fi, MtimeGranularity}
}

func uncoarse(fi os.FileInfo) os.FileInfo {
	if c, ok := fi.(coarseInfo); ok {
		return c.FileInfo
	}
	return fi
}
func Setenv(key, value string) error                 { return os.Setenv(key, value) }
func TempDir() string                                { return os.TempDir() }
func Unsetenv(key string) error                      { return os.Unsetenv(key) }
func UserCacheDir() (string, error)                  { return os.UserCacheDir() }
func UserConfigDir() (string, error)                 { return os.UserConfigDir() }
func UserHomeDir() (string, error)                   { return os.UserHomeDir() }
func FindProcess(pid int) (*Process, error)          { return os.FindProcess(pid) }
func StartProcess(n string, a []string, at *ProcAttr) (*Process, error) {
	return os.StartProcess(n, a, at)
}

// ErrKilled is returned by every hooked call of a process that was crashed by the
// scheduler and is being unwound (its deferred cleanups must not touch the disk).
var ErrKilled = errors.New("verifvfs: process was killed")

// ---- hooked calls ----------------------------------------------------------------

// File wraps *os.File. All methods of *os.File are promoted; the ones that matter to
// the monitors are overridden. All overridden methods are nil-receiver safe.
type File struct {
	*os.File
	owner *Proc
	// bytes written through this descriptor (kept only for non-table files)
	Written []byte
	class   string
}

func wrapFile(f *os.File, err error) (*File, error) {
	if err != nil {
		return nil, err
	}
	vf := &File{File: f, class: PathClass(f.Name())}
	track(vf)
	return vf, nil
}

// WrapFile is used by sibling shim packages.
func WrapFile(f *os.File) *File { vf, _ := wrapFile(f, nil); return vf }

func NewFile(fd uintptr, name string) *File {
	f := os.NewFile(fd, name)
	if f == nil {
		return nil
	}
	return &File{File: f}
}

func Open(name string) (*File, error) {
	op := enter("open", name, "", 2)
	if op.denied() {
		return nil, ErrKilled
	}
	if e := op.Faulted(); e != nil {
		leave(op, e)
		return nil, e
	}
	f, err := wrapFile(os.Open(name))
	leave(op, err)
	return f, err
}

func OpenFile(name string, flag int, perm FileMode) (*File, error) {
	k := "openfile"
	if flag&os.O_CREATE != 0 {
		k = "create"
	}
	op := enter(k, name, "", 2)
	if op.denied() {
		return nil, ErrKilled
	}
	if e := op.Faulted(); e != nil {
		leave(op, e)
		return nil, e
	}
	if op != nil {
		op.Flags = flag
	}
	f, err := wrapFile(os.OpenFile(name, flag, perm))
	leave(op, err)
	return f, err
}

func Create(name string) (*File, error) {
	op := enter("create", name, "", 2)
	if op.denied() {
		return nil, ErrKilled
	}
	if e := op.Faulted(); e != nil {
		leave(op, e)
		return nil, e
	}
	if op != nil {
		op.Flags = os.O_RDWR | os.O_CREATE | os.O_TRUNC
	}
	f, err := wrapFile(os.Create(name))
	leave(op, err)
	return f, err
}

func CreateTemp(dir, pattern string) (*File, error) {
	op := enter("tempfile", dir+"/"+pattern, "", 2)
	if op.denied() {
		return nil, ErrKilled
	}
	if e := op.Faulted(); e != nil {
		leave(op, e)
		return nil, e
	}
	f, err := wrapFile(os.CreateTemp(dir, pattern))
	if op != nil && err == nil {
		op.Path = f.File.Name()
	}
	leave(op, err)
	return f, err
}

func MkdirTemp(dir, pattern string) (string, error) {
	op := enter("mkdirtemp", dir+"/"+pattern, "", 2)
	if op.denied() {
		return "", ErrKilled
	}
	if e := op.Faulted(); e != nil {
		leave(op, e)
		return "", e
	}
	s, err := os.MkdirTemp(dir, pattern)
	leave(op, err)
	return s, err
}

func Remove(name string) error {
	op := enter("remove", name, "", 2)
	if op.denied() {
		return ErrKilled
	}
	if e := op.Faulted(); e != nil {
		leave(op, e)
		return e
	}
	err := os.Remove(name)
	leave(op, err)
	return err
}

func RemoveAll(name string) error {
	op := enter("removeall", name, "", 2)
	if op.denied() {
		return ErrKilled
	}
	if e := op.Faulted(); e != nil {
		leave(op, e)
		return e
	}
	err := os.RemoveAll(name)
	leave(op, err)
	return err
}

func Rename(oldpath, newpath string) error {
	op := enter("rename", oldpath, newpath, 2)
	if op.denied() {
		return ErrKilled
	}
	if e := op.Faulted(); e != nil {
		leave(op, e)
		return e
	}
	err := os.Rename(oldpath, newpath)
	leave(op, err)
	return err
}

func Link(oldname, newname string) error {
	op := enter("link", oldname, newname, 2)
	if op.denied() {
		return ErrKilled
	}
	if e := op.Faulted(); e != nil {
		leave(op, e)
		return e
	}
	err := os.Link(oldname, newname)
	leave(op, err)
	return err
}

func Symlink(oldname, newname string) error {
	op := enter("symlink", oldname, newname, 2)
	if op.denied() {
		return ErrKilled
	}
	if e := op.Faulted(); e != nil {
		leave(op, e)
		return e
	}
	err := os.Symlink(oldname, newname)
	leave(op, err)
	return err
}

func Mkdir(name string, perm FileMode) error {
	op := enter("mkdir", name, "", 2)
	if op.denied() {
		return ErrKilled
	}
	if e := op.Faulted(); e != nil {
		leave(op, e)
		return e
	}
	err := os.Mkdir(name, perm)
	leave(op, err)
	return err
}

func MkdirAll(name string, perm FileMode) error {
	op := enter("mkdir", name, "", 2)
	if op.denied() {
		return ErrKilled
	}
	if e := op.Faulted(); e != nil {
		leave(op, e)
		return e
	}
	err := os.MkdirAll(name, perm)
	leave(op, err)
	return err
}

func Truncate(name string, size int64) error {
	op := enter("truncate", name, "", 2)
	if op.denied() {
		return ErrKilled
	}
	if e := op.Faulted(); e != nil {
		leave(op, e)
		return e
	}
	err := os.Truncate(name, size)
	leave(op, err)
	return err
}

func ReadFile(name string) ([]byte, error) {
	op := enter("readfile", name, "", 2)
	if op.denied() {
		return nil, ErrKilled
	}
	if e := op.Faulted(); e != nil {
		leave(op, e)
		return nil, e
	}
	b, err := os.ReadFile(name)
	leave(op, err)
	return b, err
}

func WriteFile(name string, data []byte, perm FileMode) error {
	op := enter("writefile", name, "", 2)
	if op.denied() {
		return ErrKilled
	}
	if e := op.Faulted(); e != nil {
		leave(op, e)
		return e
	}
	if op != nil {
		op.Data = append([]byte(nil), data...)
	}
	err := os.WriteFile(name, data, perm)
	leave(op, err)
	return err
}

func ReadDir(name string) ([]DirEntry, error) {
	op := enter("readdir", name, "", 2)
	if op.denied() {
		return nil, ErrKilled
	}
	if e := op.Faulted(); e != nil {
		leave(op, e)
		return nil, e
	}
	r, err := os.ReadDir(name)
	leave(op, err)
	return r, err
}

func Stat(name string) (FileInfo, error) {
	op := enter("stat", name, "", 2)
	if op.denied() {
		return nil, ErrKilled
	}
	if e := op.Faulted(); e != nil {
		leave(op, e)
		return nil, e
	}
	fi, err := os.Stat(name)
	leave(op, err)
	return Coarsen(fi), err
}

func Lstat(name string) (FileInfo, error) {
	op := enter("stat", name, "", 2)
	if op.denied() {
		return nil, ErrKilled
	}
	if e := op.Faulted(); e != nil {
		leave(op, e)
		return nil, e
	}
	fi, err := os.Lstat(name)
	leave(op, err)
	return Coarsen(fi), err
}

func Pipe() (r *File, w *File, err error) {
	a, b, err := os.Pipe()
	if err != nil {
		return nil, nil, err
	}
	return &File{File: a}, &File{File: b}, nil
}

func (f *File) name() string {
	if f == nil || f.File == nil {
		return "<nil>"
	}
	return f.File.Name()
}

// Close is a yield point; it is nil-receiver safe like (*os.File).Close.
func (f *File) Close() error {
	if f == nil || f.File == nil {
		return os.ErrInvalid
	}
	op := enter("close", f.name(), "", 2)
	if op.denied() {
		return ErrKilled
	}
	if e := op.Faulted(); e != nil {
		// like close(2) returning EIO: the descriptor is gone all the same
		f.File.Close()
		untrack(f)
		leave(op, e)
		return e
	}
	err := f.File.Close()
	untrack(f)
	leave(op, err)
	return err
}

func (f *File) Write(b []byte) (int, error) {
	if f == nil || f.File == nil {
		return 0, os.ErrInvalid
	}
	var op *Op
	if s := Active; s == nil || !(s.SkipTmpWrites && f.class == "tmp") {
		op = enter("write", f.name(), "", 2)
		if op.denied() {
			return 0, ErrKilled
		}
		if e := op.Faulted(); e != nil {
			leave(op, e)
			return 0, e
		}
	}
	n, err := f.File.Write(b)
	if f.class != "tmp" && f.class != "ref" && n > 0 && len(f.Written) < 1<<20 {
		f.Written = append(f.Written, b[:n]...)
	}
	if op != nil {
		op.File = f
	}
	leave(op, err)
	return n, err
}

func (f *File) WriteString(s string) (int, error) { return f.Write([]byte(s)) }

func (f *File) WriteAt(b []byte, off int64) (int, error) {
	if f == nil || f.File == nil {
		return 0, os.ErrInvalid
	}
	op := enter("writeat", f.name(), "", 2)
	if op.denied() {
		return 0, ErrKilled
	}
	if e := op.Faulted(); e != nil {
		leave(op, e)
		return 0, e
	}
	n, err := f.File.WriteAt(b, off)
	if op != nil {
		op.File = f
	}
	leave(op, err)
	return n, err
}

func (f *File) Sync() error {
	if f == nil || f.File == nil {
		return os.ErrInvalid
	}
	op := enter("sync", f.name(), "", 2)
	if op.denied() {
		return ErrKilled
	}
	if e := op.Faulted(); e != nil {
		leave(op, e)
		return e
	}
	err := f.File.Sync()
	leave(op, err)
	return err
}

func (f *File) Truncate(size int64) error {
	if f == nil || f.File == nil {
		return os.ErrInvalid
	}
	op := enter("truncate", f.name(), "", 2)
	if op.denied() {
		return ErrKilled
	}
	if e := op.Faulted(); e != nil {
		leave(op, e)
		return e
	}
	err := f.File.Truncate(size)
	leave(op, err)
	return err
}

// ReadAt, Read and Stat on an open descriptor are not yield points (table files are
// immutable and the descriptor pins the inode) but they are refused for killed
// processes and fail cleanly on nil receivers.
func (f *File) ReadAt(b []byte, off int64) (int, error) {
	if f == nil || f.File == nil {
		return 0, os.ErrInvalid
	}
	if s := Active; s != nil && s.HookReads {
		// fault-injection runs: reads of table files are operations that can fail
		op := enter("readat", f.name(), "", 2)
		if op.denied() {
			return 0, ErrKilled
		}
		if e := op.Faulted(); e != nil {
			leave(op, e)
			return 0, e
		}
		n, err := f.File.ReadAt(b, off)
		if err == io.EOF {
			leave(op, nil)
		} else {
			leave(op, err)
		}
		return n, err
	}
	return f.File.ReadAt(b, off)
}

func (f *File) Read(b []byte) (int, error) {
	if f == nil || f.File == nil {
		return 0, os.ErrInvalid
	}
	return f.File.Read(b)
}

func (f *File) Stat() (FileInfo, error) {
	if f == nil || f.File == nil {
		return nil, os.ErrInvalid
	}
	fi, err := f.File.Stat()
	return Coarsen(fi), err
}

func (f *File) Name() string {
	if f == nil || f.File == nil {
		return ""
	}
	return f.File.Name()
}

// Enter/Leave for sibling shim packages (vioutil).
func Enter(kind, path, dst string) *Op { return enter(kind, path, dst, 3) }
func Leave(op *Op, err error)          { leave(op, err) }
func (op *Op) Denied() bool            { return op.denied() }
