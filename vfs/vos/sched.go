package vos

import (
	"fmt"
	"path/filepath"
	"runtime"
	"strings"
	"time"
)

// Op is one hooked filesystem operation of a virtual process.
type Op struct {
	Seq    int // global step at which it was performed
	Proc   int
	N      int // 1-based index among the operations of this process
	Kind   string
	Path   string
	Dst    string
	Site   string
	Err    string
	Flags  int
	Data   []byte
	File   *File
	Call   string // API call of the process during which the op was issued
	killed bool
	// Fault is the injected I/O error this operation must return instead of being
	// performed (nil = perform it)
	Fault error
}

// ErrInjected is the error of an injected I/O fault.
var ErrInjected = &injectedErr{}

type injectedErr struct{}

func (*injectedErr) Error() string { return "verif: injected I/O error (EIO)" }

// Faulted returns the injected error of the operation, nil if it is to be performed.
func (op *Op) Faulted() error {
	if op == nil {
		return nil
	}
	return op.Fault
}

// faultable: operations that may fail with an injected error. Removals are excluded
// (a process that cannot unlink cannot release anything, no property asks for that);
// a faulted close still closes the descriptor, as the kernel does.
var faultable = map[string]bool{"open": true, "openfile": true, "create": true, "tempfile": true, "rename": true,
	"write": true, "close": true, "readfile": true, "readat": true, "readdir": true, "stat": true, "sync": true, "writefile": true}

func (op *Op) denied() bool { return op != nil && op.killed }

func (op *Op) String() string {
	s := fmt.Sprintf("#%d p%d.%d %s %s", op.Seq, op.Proc, op.N, op.Kind, filepath.Base(op.Path))
	if op.Dst != "" {
		s += " -> " + filepath.Base(op.Dst)
	}
	s += " @" + op.Site
	if op.Call != "" {
		s += " in " + op.Call
	}
	if op.Err != "" {
		s += " ERR " + op.Err
	}
	return s
}

// Proc is a virtual process: a goroutine that only runs while it holds the token.
type Proc struct {
	ID      int
	Name    string
	wake    chan struct{}
	pending *Op
	started bool
	done    bool
	dead    bool
	killed  bool
	exited  chan struct{}
	files   map[*File]bool
	nops    int
	Body    func(p *Proc)
	// CrashAt: die immediately before performing the CrashAt-th hooked op (0 = never)
	CrashAt int
	// FaultAt: the FaultAt-th hooked op fails with ErrInjected if its kind is faultable
	// (0 = never). FaultFired records the operation that took the fault.
	FaultAt    int
	FaultFired *Op
	// CurCall is maintained by the harness (name of the API call in progress)
	CurCall string
	// virtual time offset accumulated by Sleep
	TimeOff time.Duration
	sched   *Sched
	// PausedOnce is set by policies
	Priority int
}

func (p *Proc) Pending() *Op { return p.pending }
func (p *Proc) NOps() int    { return p.nops }
func (p *Proc) Done() bool   { return p.done }
func (p *Proc) Dead() bool   { return p.dead }
func (p *Proc) Started() bool { return p.started }

// Sched is the token-passing scheduler of engine A.
type Sched struct {
	Procs   []*Proc
	cur     *Proc
	back    chan struct{}
	Step    int
	Trace   []Op
	KeepTrace bool
	PreOp   func(s *Sched, op *Op)
	PostOp  func(s *Sched, op *Op)
	Pick    func(s *Sched, runnable []*Proc) *Proc
	Choices []int
	inMon   bool
	// SkipTmpWrites: writes into *.reftmp table bodies are not yield points
	SkipTmpWrites bool
	// ClockStep: how far a process's virtual clock advances per reading (default 100us);
	// a large step models a slow machine / file system for the code's own deadlines
	ClockStep time.Duration
	// ClockAhead: the virtual clocks start this far after the virtual base date (the
	// default base lies before every file time stamp; a large value makes every file
	// look old to the code, as after a long pause of the processes involved)
	ClockAhead time.Duration
	// FaultTableRemoves: a removal of a table file (*.ref) may take the injected fault
	// too (other removals never do: a process that cannot unlink a lock or a temporary
	// file cannot release anything)
	FaultTableRemoves bool
	// HookReads: ReadAt on table files is a hooked operation (fault-injection runs)
	HookReads     bool
	MaxSteps      int
	Aborted       bool
	// OnCrash is called (in scheduler context) right after a process died.
	OnCrash func(s *Sched, p *Proc)
}

// Active is the installed scheduler, nil in transparent mode.
var Active *Sched

func NewSched() *Sched {
	return &Sched{back: make(chan struct{}), MaxSteps: 200000, KeepTrace: true}
}

func (s *Sched) Spawn(name string, body func(p *Proc)) *Proc {
	p := &Proc{ID: len(s.Procs), Name: name, wake: make(chan struct{}), exited: make(chan struct{}),
		files: map[*File]bool{}, Body: body, sched: s}
	s.Procs = append(s.Procs, p)
	return p
}

// Cur returns the process holding the token (nil in scheduler/setup context).
func (s *Sched) Cur() *Proc { return s.cur }

// InMonitor runs f with hooks in pass-through mode (used by monitors that call the
// library themselves, e.g. a fresh NewStack on the directory).
func (s *Sched) InMonitor(f func()) {
	old := s.inMon
	s.inMon = true
	defer func() { s.inMon = old }()
	f()
}

func (s *Sched) runnable() []*Proc {
	var r []*Proc
	for _, p := range s.Procs {
		if !p.done && !p.dead {
			r = append(r, p)
		}
	}
	return r
}

// Run schedules until every process is done or dead.
func (s *Sched) Run() {
	Active = s
	defer func() { Active = nil }()
	for {
		r := s.runnable()
		if len(r) == 0 {
			return
		}
		if s.Step > s.MaxSteps {
			s.Aborted = true
			return
		}
		p := s.Pick(s, r)
		s.Choices = append(s.Choices, p.ID)
		s.resume(p)
	}
}

func (s *Sched) resume(p *Proc) {
	s.cur = p
	if !p.started {
		p.started = true
		go func() {
			defer close(p.exited)
			defer func() {
				// normal completion, panic escaping Body, or Goexit of a killed process
				if p.killed {
					return
				}
				p.done = true
				s.cur = nil
				s.back <- struct{}{}
			}()
			<-p.wake
			p.Body(p)
		}()
	}
	p.wake <- struct{}{}
	<-s.back
}

// Reap unwinds crashed (parked forever) processes so their goroutines do not leak.
// Their deferred cleanups run, but every hooked call is refused (ErrKilled), so the
// directory is not touched. Also unwinds processes that never finished because the
// run was aborted.
func (s *Sched) Reap() {
	Active = s
	defer func() { Active = nil }()
	for _, p := range s.Procs {
		if !p.started || p.done {
			continue
		}
		p.killed = true
		p.dead = true
		for f := range p.files {
			f.File.Close()
		}
		p.files = map[*File]bool{}
		s.cur = p
		p.wake <- struct{}{}
		<-p.exited
		s.cur = nil
	}
}

func callSite(skip int) string {
	// first frame outside the shim packages
	pcs := make([]uintptr, 12)
	n := runtime.Callers(skip+1, pcs)
	fr := runtime.CallersFrames(pcs[:n])
	for {
		f, more := fr.Next()
		if !strings.Contains(f.File, "verifvfs") {
			return fmt.Sprintf("%s:%d", filepath.Base(f.File), f.Line)
		}
		if !more {
			break
		}
	}
	return "?"
}

// enter is called by a process at a hooked op: publish, yield, and return once chosen.
// Returns nil in pass-through mode.
// DelayHook, if set, is called before every hooked operation in transparent mode
// (engine B: real processes with injected delays at the same hook points).
var DelayHook func(kind, path string)

func enter(kind, path, dst string, skip int) *Op {
	s := Active
	if s == nil {
		if DelayHook != nil {
			DelayHook(kind, path)
		}
		return nil
	}
	if s.cur == nil || s.inMon {
		return nil
	}
	p := s.cur
	if p.killed {
		return &Op{killed: true}
	}
	op := &Op{Proc: p.ID, N: p.nops + 1, Kind: kind, Path: path, Dst: dst, Site: callSite(skip), Call: p.CurCall}
	if p.CrashAt > 0 && p.nops+1 == p.CrashAt {
		// the process dies here: the kernel closes its descriptors, nothing else runs
		p.dead = true
		p.pending = op
		for f := range p.files {
			f.File.Close()
		}
		p.files = map[*File]bool{}
		s.cur = nil
		if s.OnCrash != nil {
			s.inMon = true
			s.OnCrash(s, p)
			s.inMon = false
		}
		s.back <- struct{}{}
		<-p.wake // only Reap wakes a dead process
		runtime.Goexit()
	}
	p.pending = op
	s.cur = nil
	s.back <- struct{}{}
	<-p.wake
	if p.killed {
		runtime.Goexit()
	}
	// scheduled again: we hold the token
	p.pending = nil
	p.nops++
	s.Step++
	op.Seq = s.Step
	if p.FaultAt > 0 && p.nops == p.FaultAt && (faultable[kind] || (s.FaultTableRemoves && kind == "remove" && PathClass(path) == "ref")) {
		op.Fault = ErrInjected
		p.FaultFired = op
	}
	if s.PreOp != nil {
		s.inMon = true
		s.PreOp(s, op)
		s.inMon = false
	}
	return op
}

func leave(op *Op, err error) {
	if op == nil {
		return
	}
	s := Active
	if s == nil {
		return
	}
	if err != nil {
		op.Err = err.Error()
	}
	if s.KeepTrace {
		s.Trace = append(s.Trace, *op)
	}
	if s.PostOp != nil {
		s.inMon = true
		s.PostOp(s, op)
		s.inMon = false
	}
}

// Yield is a pure scheduling point (no filesystem effect), used by the harness at API
// call boundaries and by vtime.Sleep.
func Yield(kind, what string) {
	op := enter(kind, what, "", 2)
	if op.denied() {
		return
	}
	leave(op, nil)
}

// SleepHook implements vtime.Sleep: a yield point that advances the process's
// virtual clock. Returns false in pass-through mode.
func SleepHook(d time.Duration) bool {
	s := Active
	if s == nil || s.cur == nil || s.inMon {
		return false
	}
	p := s.cur
	op := enter("sleep", d.String(), "", 3)
	if op.denied() {
		return true
	}
	p.TimeOff += d
	leave(op, nil)
	return true
}

// NowOffset returns the virtual clock offset of the running process.
func NowOffset() time.Duration {
	s := Active
	if s == nil || s.cur == nil {
		return 0
	}
	return s.cur.TimeOff
}

var virtualBase = time.Date(2020, 1, 1, 0, 0, 0, 0, time.UTC)

// VirtualNow is the clock of a virtual process under the scheduler: it does not depend
// on the wall clock (a loaded machine must not expire the code's deadlines); it advances
// by Sleep and by 100 microseconds per reading, so that deadline loops still terminate.
// ok=false in transparent mode.
func VirtualNow() (time.Time, bool) {
	s := Active
	if s == nil || s.cur == nil || s.inMon {
		return time.Time{}, false
	}
	step := s.ClockStep
	if step <= 0 {
		step = 100 * time.Microsecond
	}
	s.cur.TimeOff += step
	return virtualBase.Add(s.ClockAhead).Add(s.cur.TimeOff), true
}

func track(f *File) {
	if s := Active; s != nil && s.cur != nil && !s.inMon && f != nil {
		f.owner = s.cur
		s.cur.files[f] = true
	}
}

func untrack(f *File) {
	if f != nil && f.owner != nil {
		delete(f.owner.files, f)
	}
}

// OpenFiles returns the number of descriptors the process holds.
func (p *Proc) OpenFiles() int { return len(p.files) }

// PathClass classifies a path for monitors and coverage.
func PathClass(p string) string {
	b := filepath.Base(p)
	switch {
	case b == "tables.list":
		return "list"
	case b == "tables.list.lock":
		return "list.lock"
	case strings.HasSuffix(b, ".ref.lock"):
		return "ref.lock"
	case strings.HasSuffix(b, ".lock"):
		return "other.lock"
	case strings.HasSuffix(b, ".ref"):
		return "ref"
	case strings.HasSuffix(b, ".reftmp"):
		return "tmp"
	}
	return "other"
}
