// Package vtime replaces "time" in the rewritten scratch copy of reftable. Everything
// forwards to package time except Sleep (a yield point advancing a per-process virtual
// clock) and Now (real time plus that virtual offset).
package vtime

import (
	"time"

	"github.com/google/reftable/verifvfs/vos"
)

type (
	Time       = time.Time
	Duration   = time.Duration
	Month      = time.Month
	Weekday    = time.Weekday
	Location   = time.Location
	Timer      = time.Timer
	Ticker     = time.Ticker
	ParseError = time.ParseError
)

const (
	Nanosecond  = time.Nanosecond
	Microsecond = time.Microsecond
	Millisecond = time.Millisecond
	Second      = time.Second
	Minute      = time.Minute
	Hour        = time.Hour

	RFC3339     = time.RFC3339
	RFC3339Nano = time.RFC3339Nano
	RFC1123     = time.RFC1123
	RFC1123Z    = time.RFC1123Z
	RFC822      = time.RFC822
	RFC822Z     = time.RFC822Z
	RFC850      = time.RFC850
	ANSIC       = time.ANSIC
	UnixDate    = time.UnixDate
	RubyDate    = time.RubyDate
	Kitchen     = time.Kitchen
	Stamp       = time.Stamp
	StampMilli  = time.StampMilli
	StampMicro  = time.StampMicro
	StampNano   = time.StampNano
	Layout      = time.Layout
	DateTime    = time.DateTime
	DateOnly    = time.DateOnly
	TimeOnly    = time.TimeOnly

	January   = time.January
	February  = time.February
	March     = time.March
	April     = time.April
	May       = time.May
	June      = time.June
	July      = time.July
	August    = time.August
	September = time.September
	October   = time.October
	November  = time.November
	December  = time.December

	Sunday    = time.Sunday
	Monday    = time.Monday
	Tuesday   = time.Tuesday
	Wednesday = time.Wednesday
	Thursday  = time.Thursday
	Friday    = time.Friday
	Saturday  = time.Saturday
)

var (
	UTC   = time.UTC
	Local = time.Local
)

func Now() Time {
	if t, ok := vos.VirtualNow(); ok {
		return t
	}
	return time.Now()
}

func Sleep(d Duration) {
	if vos.SleepHook(d) {
		return
	}
	time.Sleep(d)
}

func Since(t Time) Duration { return Now().Sub(t) }
func Until(t Time) Duration { return t.Sub(Now()) }

func After(d Duration) <-chan Time                         { return time.After(d) }
func AfterFunc(d Duration, f func()) *Timer                { return time.AfterFunc(d, f) }
func NewTimer(d Duration) *Timer                           { return time.NewTimer(d) }
func NewTicker(d Duration) *Ticker                         { return time.NewTicker(d) }
func Tick(d Duration) <-chan Time                          { return time.Tick(d) }
func ParseDuration(s string) (Duration, error)             { return time.ParseDuration(s) }
func Parse(layout, value string) (Time, error)             { return time.Parse(layout, value) }
func ParseInLocation(l, v string, loc *Location) (Time, error) {
	return time.ParseInLocation(l, v, loc)
}
func Unix(sec int64, nsec int64) Time                      { return time.Unix(sec, nsec) }
func UnixMilli(msec int64) Time                            { return time.UnixMilli(msec) }
func UnixMicro(usec int64) Time                            { return time.UnixMicro(usec) }
func Date(y int, m Month, d, h, mi, s, ns int, loc *Location) Time {
	return time.Date(y, m, d, h, mi, s, ns, loc)
}
func FixedZone(name string, offset int) *Location          { return time.FixedZone(name, offset) }
func LoadLocation(name string) (*Location, error)          { return time.LoadLocation(name) }
