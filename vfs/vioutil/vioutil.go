// Package vioutil replaces "io/ioutil" in the rewritten scratch copy of reftable.
package vioutil

import (
	"io"
	"io/ioutil"
	"os"

	"github.com/google/reftable/verifvfs/vos"
)

var Discard = ioutil.Discard

func NopCloser(r io.Reader) io.ReadCloser { return ioutil.NopCloser(r) }
func ReadAll(r io.Reader) ([]byte, error) { return ioutil.ReadAll(r) }

func ReadFile(name string) ([]byte, error) {
	op := vos.Enter("readfile", name, "")
	if op.Denied() {
		return nil, vos.ErrKilled
	}
	if e := op.Faulted(); e != nil {
		vos.Leave(op, e)
		return nil, e
	}
	b, err := ioutil.ReadFile(name)
	vos.Leave(op, err)
	return b, err
}

func WriteFile(name string, data []byte, perm os.FileMode) error {
	op := vos.Enter("writefile", name, "")
	if op.Denied() {
		return vos.ErrKilled
	}
	if e := op.Faulted(); e != nil {
		vos.Leave(op, e)
		return e
	}
	if op != nil {
		op.Data = append([]byte(nil), data...)
	}
	err := ioutil.WriteFile(name, data, perm)
	vos.Leave(op, err)
	return err
}

func ReadDir(name string) ([]os.FileInfo, error) {
	op := vos.Enter("readdir", name, "")
	if op.Denied() {
		return nil, vos.ErrKilled
	}
	if e := op.Faulted(); e != nil {
		vos.Leave(op, e)
		return nil, e
	}
	r, err := ioutil.ReadDir(name)
	vos.Leave(op, err)
	if vos.MtimeGranularity > 0 {
		for i := range r {
			r[i] = vos.Coarsen(r[i])
		}
	}
	return r, err
}

func TempFile(dir, pattern string) (*vos.File, error) {
	op := vos.Enter("tempfile", dir+"/"+pattern, "")
	if op.Denied() {
		return nil, vos.ErrKilled
	}
	if e := op.Faulted(); e != nil {
		vos.Leave(op, e)
		return nil, e
	}
	f, err := ioutil.TempFile(dir, pattern)
	if err != nil {
		vos.Leave(op, err)
		return nil, err
	}
	if op != nil {
		op.Path = f.Name()
	}
	vf := vos.WrapFile(f)
	vos.Leave(op, nil)
	return vf, nil
}

func TempDir(dir, pattern string) (string, error) {
	op := vos.Enter("mkdirtemp", dir+"/"+pattern, "")
	if op.Denied() {
		return "", vos.ErrKilled
	}
	if e := op.Faulted(); e != nil {
		vos.Leave(op, e)
		return "", e
	}
	s, err := ioutil.TempDir(dir, pattern)
	vos.Leave(op, err)
	return s, err
}
