#!/bin/sh
# Source coverage of the C library (/repo/c) under the C15 workload: which C code the
# differential check and its sanitizers never see.  usage: tools/ccoverage.sh [tier=quick]
D=${TMPDIR:-/tmp}/verif-ccov.$$
rm -rf "$D"; mkdir -p "$D"
cd "$(dirname "$0")/.." || exit 1
cp evidence/C15.json "$D/ev.bak"
VERIF_CCOV="$D" ./check C15 "${1:-quick}" >"$D/log" 2>&1; rc=$?
cp "$D/ev.bak" evidence/C15.json   # a coverage build is not the registered check: keep its evidence out
tail -2 "$D/log"
llvm-profdata merge -o "$D/c.profdata" "$D"/*.profraw || exit 1
llvm-cov report "$D/cdriver" -instr-profile="$D/c.profdata" /repo/c/*.c 2>/dev/null | grep -v '_test.c\|test_framework\|dump.c'
echo "functions never executed:"
llvm-cov report "$D/cdriver" -instr-profile="$D/c.profdata" -show-functions /repo/c/*.c 2>/dev/null | awk 'NF>=10 && $5>0 && $5==$6 {print "  "$1" ("$5" lines)"}' | sort -u
[ -n "$KEEP" ] && { echo "kept $D"; exit $rc; }
rm -rf "$D"
exit $rc
