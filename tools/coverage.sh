#!/bin/sh
# Statement coverage of package reftable (the rewritten scratch copy) under one shard of the
# quick workload of the Go-only checks: tells which code the monitors never see.
# usage: tools/coverage.sh [nshards=6]   (uses the developer scratch /tmp/vdev, see devbuild.sh)
export GOFLAGS=-mod=mod GOPROXY=off GOSUMDB=off GOTOOLCHAIN=local
N=${1:-6}
sh "$(dirname "$0")/devbuild.sh" >/dev/null || exit 1
cd /tmp/vdev/h && go build -cover -coverpkg=github.com/google/reftable,verif/harness/... -tags have_autocompact,have_suggest,have_compactrange -o ../harness-cov . || exit 1
rm -rf /tmp/vdev/cov && mkdir -p /tmp/vdev/cov /tmp/vdev/o4
cd /tmp/vdev
for p in C01 C02 C03 C04 C05 C06 C07 C08 C09 C10 C11 C12 C13 C14 C16 C17 C18; do
  rm -rf /dev/shm/vdevw; mkdir -p /dev/shm/vdevw
  GOCOVERDIR=/tmp/vdev/cov GOMAXPROCS=2 timeout 900 ./harness-cov -prop $p -shard 0 -nshards $N -out /tmp/vdev/o4 -work /dev/shm/vdevw >/dev/null 2>&1
done
cd /tmp/vdev/h
go tool covdata percent -i=/tmp/vdev/cov | grep 'google/reftable[[:space:]]'
go tool covdata textfmt -i=/tmp/vdev/cov -o /tmp/vdev/cov.txt -pkg=github.com/google/reftable
echo "functions below 80%:"
go tool cover -func=/tmp/vdev/cov.txt | awk '$3+0 < 80'
