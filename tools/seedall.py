#!/usr/bin/env python3
"""seedall.py [--only PREFIX] : re-runs every confirmed seeded change in /verif/seeded
against the check of its property (quick tier; extra checks listed in EXTRA) and writes
/verif/seeded/SUMMARY.md. Each run uses a scratch worktree of /repo (tools/seedtest.py)."""
import json, os, subprocess, sys
V = os.path.dirname(os.path.dirname(os.path.abspath(__file__)))
EXTRA = {"C10-2": ["C10", "C09"], "C07-r7-2": ["C07", "C09"], "C14-r7-2": ["C14", "C01"], "C05-r7-3": ["C05", "C04"]}

def main():
    only = sys.argv[2] if len(sys.argv) > 2 and sys.argv[1] == "--only" else ""
    rows = []
    for name in sorted(os.listdir(os.path.join(V, "seeded"))):
        d = os.path.join(V, "seeded", name)
        if not os.path.isdir(d) or not name.startswith(only):
            continue
        prop = name.split("-")[0]
        checks = EXTRA.get(name, [prop])
        p = subprocess.run([os.path.join(V, "tools", "seedtest.py"), prop, d, "--checks", ",".join(checks)], stdout=subprocess.PIPE, stderr=subprocess.STDOUT, text=True)
        det, conf, sig = [], "?", ""
        for line in p.stdout.splitlines():
            if line.startswith("confirm:"):
                conf = "yes" if line.count("True") == 3 else line
            if line.startswith("check "):
                parts = line.split()
                v = int(line.split("violations=")[1].split()[0])
                if v > 0:
                    det.append(parts[1])
                    if not sig and "[" in line:
                        sig = line.split("[", 1)[1].split("]")[0]
        rows.append((name, conf, ",".join(det) or "MISSED", sig))
        print(rows[-1], flush=True)
    # with --only the other rows of an existing summary are kept
    sp = os.environ.get("SEEDALL_SUMMARY") or os.path.join(V, "seeded", "SUMMARY.md")  # a second stream writes elsewhere
    if only and os.path.exists(sp):
        have = {r[0] for r in rows}
        for line in open(sp):
            c = [x.strip() for x in line.strip().strip("|").split("|")]
            if len(c) >= 4 and c[0].startswith("C") and c[0] not in have and os.path.isdir(os.path.join(V, "seeded", c[0])):
                rows.append((c[0], c[1], c[2], "|".join(c[3:])))  # signatures contain '|'

        rows.sort()
    with open(sp, "w") as f:
        f.write("# Seeded changes re-run against the current checks (quick tier)\n\n| change | confirmed (suite passes / demo fails with / passes without) | detected by | first signature |\n|---|---|---|---|\n")
        for r in rows:
            f.write("| %s | %s | %s | %s |\n" % r)
        f.write("\n%d changes, %d detected.\n" % (len(rows), sum(1 for r in rows if r[2] != "MISSED")))

if __name__ == "__main__":
    main()
