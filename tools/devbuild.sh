#!/bin/sh
# developer helper: rebuild the harness in a persistent scratch (/tmp/vdev) for quick vet/build cycles
export GOFLAGS=-mod=mod GOPROXY=off GOSUMDB=off GOTOOLCHAIN=local
REPO=${VERIF_REPO:-/repo}
mkdir -p /tmp/vdev/rt /tmp/vdev/h
(cd /verif/tools/rewrite && go build -o /tmp/vdev/rewrite .) || exit 1
rm -f /tmp/vdev/rt/*.go
/tmp/vdev/rewrite $REPO /tmp/vdev/rt >/dev/null || exit 1
cp $REPO/go.mod /tmp/vdev/rt/ && rsync -a --delete /verif/vfs/ /tmp/vdev/rt/verifvfs/ && cp /verif/export/*.go /tmp/vdev/rt/
rsync -a --delete /verif/harness/ /tmp/vdev/h/ && cd /tmp/vdev/h && go vet -tags have_autocompact,have_suggest,have_compactrange ./... && go build -tags have_autocompact,have_suggest,have_compactrange -o ../harness . && echo built
