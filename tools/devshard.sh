#!/bin/sh
# run one shard of a property on the dev build and summarise: devshard.sh C04 [shard] [nshards] [extra flags]
P=$1; S=${2:-0}; N=${3:-16}; shift; shift; shift
rm -rf /dev/shm/vdevw; mkdir -p /dev/shm/vdevw /tmp/vdev/o4
cd /tmp/vdev && GOMAXPROCS=1 ./harness -prop $P -shard $S -nshards $N -out o4 -work /dev/shm/vdevw "$@" 2>&1 | tail -5
python3 - <<PY
import json
d=json.load(open('/tmp/vdev/o4/report-$P-$S.json'))
print('evaluations',d['evaluations'],'inconclusive',d['inconclusive'],'ood',d['out_of_domain'])
print(d['counters'])
for v in (d['violations'] or []):
    print(v['props'], v['sig'], v['count'])
    print('    ', v['msg'][:900].replace('\n',' | '))
    c=v.get('case') or {}
    print('    ', c.get('scenario'), c.get('initial_stack'), (c.get('cfg') or '')[:30], 'idx', c.get('index'))
print(d['notes'])
PY
