#!/bin/bash
# runs every check (quick by default) and prints one line each; usage: runall.sh [tier] [seed]
tier=${1:-quick}; seed=${2:-1}
cd "$(dirname "$0")/.."
for p in C01 C02 C03 C04 C05 C06 C07 C08 C09 C10 C11 C12 C13 C14 C15 C16 C17 C18 C19; do
  out=$(VERIF_SEED=$seed ./check $p $tier 2>/tmp/runall-$p.err); rc=$?
  echo "rc=$rc $(echo "$out" | grep -c '^VIOLATION') viol; $(echo "$out" | tail -1)"
done
