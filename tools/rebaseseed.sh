#!/bin/bash
# rebaseseed.sh <seeded-name> [finish]: re-bases seeded/<name>/patch.diff onto /repo HEAD.
# Without "finish": applies the patch at its recorded base commit in /tmp/rb-<name> and rebases;
# on conflict it stops (resolve in /tmp/rb-<name>, git add, then run with "finish").
set -e
n=$1; d=/verif/seeded/$n; wt=/tmp/rb-$n
G="git -c user.name=seed -c user.email=seed@example.org"
if [ "$2" != "finish" ]; then
  base=$(python3 -c "import json;print(json.load(open('$d/meta.json'))['base_commit'])")
  git -C /repo worktree add -q --detach $wt $base
  cd $wt && git apply $d/patch.diff && $G commit -qam seed
  if ! $G rebase main >/dev/null 2>&1; then echo "CONFLICT in $wt:"; git diff --name-only --diff-filter=U; exit 1; fi
else
  cd $wt
  if [ -d .git/rebase-merge ] || [ -d "$(git rev-parse --git-dir)/rebase-merge" ]; then git add -A; GIT_EDITOR=true $G rebase --continue >/dev/null; fi
fi
cd $wt
git diff main HEAD > $d/patch.diff
python3 - <<PY
import json,subprocess
p='$d/meta.json'; m=json.load(open(p))
m['base_commit']=subprocess.check_output(['git','-C','/repo','rev-parse','main'],text=True).strip()
m['rebased']=True
json.dump(m,open(p,'w'),indent=1)
PY
cd /; git -C /repo worktree remove --force $wt
echo "rebased $n ($(grep -c '^@@' $d/patch.diff) hunks)"
