// rewrite copies the non-test Go files of a reftable working tree into a destination
// directory, rewriting import specs only:
//   "os"        -> os "github.com/google/reftable/verifvfs/vos"
//   "io/ioutil" -> ioutil "github.com/google/reftable/verifvfs/vioutil"
//   "time"      -> time "github.com/google/reftable/verifvfs/vtime"
// No statement or identifier is edited. With -tests the _test.go files are copied
// (and rewritten) as well, which is how shim transparency is checked.
package main

import (
	"bytes"
	"flag"
	"fmt"
	"go/ast"
	"go/format"
	"go/parser"
	"go/token"
	"os"
	"path/filepath"
	"strconv"
	"strings"
)

var repl = map[string][2]string{
	"os":        {"os", "github.com/google/reftable/verifvfs/vos"},
	"io/ioutil": {"ioutil", "github.com/google/reftable/verifvfs/vioutil"},
	"time":      {"time", "github.com/google/reftable/verifvfs/vtime"},
}

func main() {
	tests := flag.Bool("tests", false, "also copy _test.go files")
	flag.Parse()
	if flag.NArg() != 2 {
		fmt.Fprintln(os.Stderr, "usage: rewrite [-tests] <srcdir> <dstdir>")
		os.Exit(2)
	}
	src, dst := flag.Arg(0), flag.Arg(1)
	ents, err := os.ReadDir(src)
	if err != nil {
		fmt.Fprintln(os.Stderr, err)
		os.Exit(2)
	}
	n := 0
	for _, e := range ents {
		name := e.Name()
		if e.IsDir() || !strings.HasSuffix(name, ".go") {
			continue
		}
		if strings.HasSuffix(name, "_test.go") && !*tests {
			continue
		}
		if strings.HasPrefix(name, "zz_verif_") {
			continue
		}
		fset := token.NewFileSet()
		f, err := parser.ParseFile(fset, filepath.Join(src, name), nil, parser.ParseComments)
		if err != nil {
			fmt.Fprintln(os.Stderr, "parse:", err)
			os.Exit(3)
		}
		for _, im := range f.Imports {
			p, _ := strconv.Unquote(im.Path.Value)
			r, ok := repl[p]
			if !ok {
				continue
			}
			im.Path.Value = strconv.Quote(r[1])
			if im.Name == nil {
				im.Name = ast.NewIdent(r[0])
			}
		}
		var buf bytes.Buffer
		if err := format.Node(&buf, fset, f); err != nil {
			fmt.Fprintln(os.Stderr, "print:", err)
			os.Exit(3)
		}
		if err := os.WriteFile(filepath.Join(dst, name), buf.Bytes(), 0644); err != nil {
			fmt.Fprintln(os.Stderr, err)
			os.Exit(2)
		}
		n++
	}
	fmt.Printf("rewrote %d files\n", n)
}
