#!/usr/bin/env python3
"""storeseed.py <prop> <src-dir> <name> <seedtest-output> [needs-text]

Stores a seeded change that tools/seedtest.py has confirmed (its printed output is the
record of what was run) as /verif/seeded/<name>/ without running the checks again."""
import json, os, re, shutil, subprocess, sys

prop, src, name, res = sys.argv[1:5]
needs = sys.argv[5] if len(sys.argv) > 5 else ""
txt = open(res).read()
m = re.search(r"confirm: suite_passes=(\w+) demo_fails_with=(\w+) demo_passes_without=(\w+)", txt)
if not m or m.groups() != ("True", "True", "True"):
    sys.exit("not confirmed: " + res)
checks = {}
for cm in re.finditer(r"check (C\d\d) (\w+): exit=(\d+) violations=(\d+) (.*?) \((\d+)s\)\s*$", txt, re.M):
    checks[cm.group(1)] = dict(tier=cm.group(2), detected=int(cm.group(4)) > 0, signatures=[s.strip() for s in cm.group(5).split("; ") if s.strip()])
d = os.path.join("/verif/seeded", name)
os.makedirs(d, exist_ok=True)
for f in os.listdir(src):
    if f in ("patch.diff", "zz_demo_test.go", "notes.md") or f.endswith((".c", ".h", ".sh")):
        shutil.copy(os.path.join(src, f), os.path.join(d, f))
head = subprocess.check_output(["git", "-C", "/repo", "rev-parse", "HEAD"], text=True).strip()
ok = subprocess.run(["git", "-C", "/repo", "apply", "--check", os.path.join(d, "patch.diff")]).returncode == 0
base = head if ok else subprocess.check_output(["git", "-C", "/repo", "rev-parse", "HEAD~1"], text=True).strip()
meta = dict(property=prop, origin="independent sub-agent given only the property text and a scratch worktree (%s batch)" % ("eighth" if "-r8-" in name else "seventh"),
            base_commit=base, needs=needs,
            confirmed=dict(suite_passes_with_change=True, demo_fails_with_change=True, demo_passes_without_change=True,
                           how="tools/seedtest.py: scratch worktree of /repo HEAD, git apply patch.diff, go test -count=1 ., go test -run TestDemo with and without the patch"),
            checks_run=checks)
json.dump(meta, open(os.path.join(d, "meta.json"), "w"), indent=1)
print("stored", name, "base", base[:7], "applies-to-HEAD" if ok else "NEEDS REBASE", {k: v["detected"] for k, v in checks.items()})
