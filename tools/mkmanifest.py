#!/usr/bin/env python3
"""Regenerates /verif/MANIFEST.json from the table below (keeps it valid at all times)."""
import json, os, sys
V = os.path.dirname(os.path.dirname(os.path.abspath(__file__)))

BASELINE_OFF = ("cd /repo && GOFLAGS=-mod=mod GOPROXY=off GOSUMDB=off GOTOOLCHAIN=local "
                "go test -json -vet=off -count=1 -timeout 25m ./...")

CHECKS = {
 "C14": dict(level="exploration", design="5/C14",
   text="Every file emitted by the real writer in this run (generated tables of all configurations; stack additions and compactions) is decoded by an independent decoder written from the format description and compared with its source records, rule by rule (header/footer/CRC, padding, restarts, key order, every index entry at every level, object-index position lists, update-index range).",
   note="Trusts my reading of the format (DESIGN.md appendix A) and the Go standard library zlib/crc32.",
   technique="runtime monitoring: independent format decoder as oracle over files emitted by executions of the real writer/stack"),
 "C01": dict(level="exploration", design="5/C01",
   text="Generated tables (all Config values x limits x record shapes, deterministic from VERIF_SEED) are written by the real Writer and scanned by the real Reader; the oracle is the generator's own record list after the documented normalisation only. Held = every generated table of this run read back exactly.",
   note="Trusts the harness's generator/normaliser (gen/) and Go's compress/zlib. Inputs rejected by the writer are counted out-of-domain, not held.",
   technique="runtime monitoring: reference-model oracle (generator's record list) over executions of the real writer+reader on generated inputs"),
 "C02": dict(level="exploration", design="5/C02",
   text="Every key class around every record key (exact, predecessor, successor, prefix, +-1, empty, beyond-last; for logs update index u, u+-1, 0, max) is sought in writer-produced tables with 0..3 index levels; oracle = suffix of the generator's list.",
   note="Trusts the generator; for large tables only a window after the landing point is compared for most keys (full suffix for every 16th key and near the end).",
   technique="runtime monitoring: reference-model oracle (binary search in the input list) over real Reader seeks on generated tables"),
}

NOT_YET = {
}

def main():
    props = [json.loads(l) for l in open(os.path.join(V, "properties.jsonl"))]
    checks = []
    na = []
    for p in props:
        pid = p["id"]
        c = CHECKS.get(pid)
        if not c:
            na.append(dict(property_id=pid, reason=NOT_YET.get(pid, "check not built yet in this session (work in progress; see DESIGN.md section 5 for the planned monitor)")))
            continue
        checks.append(dict(
            property_id=pid,
            quick_cmd="./check %s quick" % pid,
            thorough_cmd="./check %s thorough" % pid,
            evidence_file="/verif/evidence/%s.json" % pid,
            replay_cmd_template="./check %s --replay {path}" % pid,
            engine=c.get("engine", "harness"),
            level_claimed=dict(category=c["level"], text=c["text"], design_ref="DESIGN.md section " + c["design"]),
            level_note=c["note"],
            technique=c["technique"],
        ))
    m = dict(
        version=1,
        setup_cmd="./setup.sh",
        hooks=dict(
            guard="verifvfs (build-time import rewriting of a scratch copy; no hook code in /repo)",
            enable="./check copies /repo's working tree to a scratch dir, rewrites the import specs os/io-ioutil/time to /verif/vfs shim packages (tools/rewrite), adds export/zz_verif_export*.go and builds the harness against that copy",
            baseline_off_cmd=BASELINE_OFF,
            source_commits=[],
            add_only=True,
        ),
        engines=[
            dict(name="harness", path="/verif/harness", serves_properties=sorted(CHECKS), kind_free_text="Go harness: generators, reference models, independent decoder, monitors; built per run against a rewritten copy of the working tree"),
            dict(name="engineA", path="/verif/vfs/vos/sched.go", serves_properties=[p for p in ["C04","C05","C06","C08","C10","C16"] if p in CHECKS], kind_free_text="token-passing scheduler over hooked filesystem calls of goroutine 'virtual processes' on a real directory; seeded schedules, pause sweeps, crash injection"),
        ],
        checks=checks,
        notes="Runtime monitoring only: every verdict is 'held on the executions listed in the evidence file'. known_findings.json lists defects (fixed by 'fix:' commits in /repo, or known).",
        not_applicable=na,
    )
    with open(os.path.join(V, "MANIFEST.json"), "w") as f:
        json.dump(m, f, indent=1)
    print("wrote MANIFEST.json: %d checks, %d not claimed" % (len(checks), len(na)))

if __name__ == "__main__":
    main()
