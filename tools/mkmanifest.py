#!/usr/bin/env python3
"""Regenerates /verif/MANIFEST.json from the table below (keeps it valid at all times)."""
import json, os, sys
V = os.path.dirname(os.path.dirname(os.path.abspath(__file__)))

BASELINE_OFF = ("cd /repo && GOFLAGS=-mod=mod GOPROXY=off GOSUMDB=off GOTOOLCHAIN=local "
                "go test -json -vet=off -count=1 -timeout 25m ./...")

CHECKS = {
 "C15": dict(level="exploration", design="5/C15",
   text="Differential run of the two implementations of the repository: the C library is built from /repo/c (current tree) with clang ASan+UBSan and driven by /verif/cdriver/driver.c. Every query (full scan, SeekRef, SeekLog, RefsFor) is answered by both implementations on the same file/directory: Go-written tables read by C, C-written tables read by Go (and judged by the independent decoder and the source records), Go-written stacks (Adds + compactions) read by C, C-written stacks (stack_add with its auto-compaction, compact_all) read and extended by Go and read again by C. Sanitizer reports of the C side on such input are violations. Also (e): the C stack extends a stack written by Go - single transactions and multi-table additions through reftable_stack_new_addition / addition_add / addition_commit (C's auto-compaction then merges tables Go wrote), compact_all, compact_all with reflog expiry (time and minimum update index, judged by the reference filter) and reftable_stack_clean - and Go reads the result (fresh view == model) and C's answers on it == Go's. (f): a long-lived C process keeps ONE stack handle open (driver command stack-session) while Go rewrites the stack underneath it; the handle reloads, its answers are compared with Go's on the new state, and a transaction added through it must land on the current state.",
   note="NUL-free names and strings; configurations both writers accept (a writer rejecting an input is counted, not judged); ASan leak detection off.",
   technique="runtime monitoring: differential oracle (two implementations + source records) with compiler sanitizers (ASan, UBSan) on the C half"),
 "C18": dict(level="exploration", design="5/C18",
   text="Mutated tables (16 byte-level mutation kinds plus one structure-aware kind incl. length-field edits with the footer CRC repaired, splices, zlib bombs, index scribbles, short files) of valid tables of every layout are fed, in a child process per batch, to NewReader and then to every reader entry point (scans, seeks, ReadRef, ReadLogAt, RefsFor, merged views with a valid table). Monitors: recover() around every call (panic = violation, signature = topmost reftable frame + panic class), child death (fatal error, OOM, signal), bytes allocated per call (runtime/metrics) <= 64 MiB + 64*len, records per iterator <= 2^24 + 8*len, CPU time per input <= 30 s (from /proc/<pid>/stat). The witness input is written to disk before the call. Thorough adds Go native coverage-guided fuzzing (FuzzReader, execution-count budget) with the same probe. Plus, per batch of 400, 66 extra mutants of kind log-plaintext from their own PRNG stream: a log block is inflated, its plain records / restart table are edited (cut at any byte with a consistent restart table and block length, flips, byte sets, varint runs, restart-offset and count edits) and deflated again, so that the edit reaches the log record decoder instead of dying in the inflater.",
   note="Quick tier is mutation-based only; inputs up to ~24 KB. The child has a 6 GiB address-space limit.",
   technique="runtime monitoring: crash/allocation/iteration/CPU monitors around the real reader on mutated inputs, process isolation per batch"),
 "C19": dict(level="exploration", design="5/C19",
   text="The harness is built with -race. 16..32 goroutines run a PRNG-chosen mix of scans, seeks, ReadRef and RefsFor on ONE shared Reader (memory- and file-backed) and ONE shared Merged (raw and Stack.Merged()); every result is compared with the answer computed sequentially on a SEPARATE object over the same bytes, so every shared object (4 fresh ones per kind and round) is cold when the goroutines, released by a barrier, first query it; the race detector's log (GORACE log_path, halt_on_error=0) is parsed by the driver and any report with a reftable frame is a violation (reports are deduplicated by the pair of outermost reftable functions).",
   note="The race detector only reports races that occur in the interleavings of this run; rounds are repeated. Concurrent use of one Stack or one Iterator is not promised and not exercised.",
   technique="Go race detector (-race) over a repeated concurrent read workload + result comparison against sequential answers"),
 "C04": dict(level="exploration", design="5/C04", engine="engineA",
   text="2..4 real Stack handles run scripts on one real directory under a token-passing scheduler that decides, at every hooked filesystem call, which process goes next: pause sweeps (A parked before each of its filesystem operations while the others run) over ordered pairs of operation kinds and several initial stacks, nested sweeps over triples, and PCT/uniform random schedules. Oracles: M-commit on every rename onto tables.list (new view = old view, or old view + the committer's transaction), Add result <=> committed exactly once, final fresh view = fold of commits, porcupine linearizability check of the client-boundary history. Cross-validated by engine B: real worker processes with injected delays, a seqlock observer and kill -9, checked offline with the same oracles. I/O fault sweeps: every hooked filesystem operation of every call kind fails once with an injected error (removals exempt); the failed call is indeterminate but never partially visible, a call that still returns nil committed exactly its transaction. Sequential single-handle histories and the capacity-window family (records at the capacity of a block that become the first record of a compacted table): an Add or compaction by the only handle never fails. Also late-clock pair sweeps (virtual clock decades after the files' time stamps) and coarse-mtime pair sweeps (every FileInfo the code obtains carries the same modification time, as on a file system with coarse time stamps).",
   note="Processes are goroutines of one OS process; in-memory code between two filesystem calls runs atomically (exact for separate processes, which share no memory). Real kernel semantics for O_EXCL/rename/unlink (tmpfs). Verdict covers the schedules actually run.",
   technique="runtime monitoring: online refinement monitor on hooked filesystem operations under a seeded scheduler + offline linearizability checking (porcupine) of recorded histories"),
 "C05": dict(level="exploration", design="5/C05", engine="engineA",
   text="Same engine; after EVERY single filesystem operation of every process the directory is checked: tables.list parsed independently, every named file exists and passes the independent decoder, hash size matches, ranges strictly increase, a fresh NewStack succeeds and shows the last committed state; no listed table is ever removed. Workload biased to 2..3 concurrent compactions of disjoint/overlapping ranges. I/O fault sweeps with the per-operation directory check: a failed operation never publishes a list naming a missing or malformed table. Also late-clock pair sweeps (virtual clock decades after the files' time stamps) and coarse-mtime pair sweeps (every FileInfo the code obtains carries the same modification time, as on a file system with coarse time stamps).",
   note="A process crash does not change the directory, so the state checked after operation k is the state a crash after k leaves. Same engine assumptions as C04.",
   technique="runtime monitoring: invariant checked at every hooked filesystem operation (independent list parser + decoder + fresh open) under seeded schedules"),
 "C06": dict(level="fault_enumeration", design="5/C06", engine="engineA",
   text="For every explored operation (12 kinds x 6 initial stacks x continuations) the process is killed immediately before EVERY one of its hooked filesystem operations (table-body writes included): descriptors closed, no cleanup runs. At the crash and after every earlier operation a fresh open must succeed and show exactly the last committed state (which M-commit proved to be before or after the call); a second process then continues (reads must succeed, writers may be refused only while a dead process's lock exists) and the final view must equal the model. Continuations include a deletion of every key followed by additions of other names (a dropped tombstone resurfaces).",
   note="Process crashes only (no torn writes, no power loss - excluded by the property). Enumeration is complete per explored operation, not over all operations/stacks.",
   technique="runtime monitoring with fault injection: crash enumeration at every hooked filesystem operation along observed executions, oracle = fresh open vs. commit history"),
 "C08": dict(level="exploration", design="5/C08", engine="engineA",
   text="Same engine; M-lock ledger (path -> creator, inode) updated at every create/remove/rename of a *.lock path: a create while a live holder exists, a removal/rename by a non-creator or of a different inode are violations; at every commit the new tables.list bytes must equal what the committer wrote through its own lock-file descriptor. Workload: contention triples on the re-lock, overlapping compactions, crash of a lock holder followed by other writers, random 3-4 writer schedules. I/O-fault-inside-window sweeps: a process takes an injected error at each of its operations on lock files and at its renames while another process is parked before each of its operations in turn (so the error paths run while the other one holds tables.list.lock or table locks). Also: a commit that drops a table from the list while another live process holds that table's compaction lock is a violation (two compactions rewrite the same table); explicit-range compaction pairs (nested and overlapping ranges); late-clock sweeps: the same pause sweeps with the virtual clock 80 years after the files' time stamps (a lock stays its creator's however old it looks).",
   note="Same engine assumptions as C04. Does not require that compaction uses per-table locks at all, only observable exclusivity and ownership.",
   technique="runtime monitoring: ownership ledger on hooked lock-file operations under seeded schedules"),
 "C10": dict(level="exploration", design="5/C10", engine="engineA",
   text="Same engine; after every completed call of a handle and at read calls placed between other processes' operations the handle's full scans, ReadRef and RefsFor must succeed, its table names must equal ONE recorded version of tables.list (not older than before) and the scans must equal a fresh reader's view of that version. Workload: the reading handle is paused at each hook of reload (after the list read, between table opens) while 1-3 others run sequences of Add + compaction. Also: sweeps in which the list shrinks without any new file (a prefix of the stack cancels out), and I/O fault sweeps (an error inside Add, compaction or reload leaves the handle with one consistent version). Slow-clock sweeps: the same pause sweeps with the virtual clock advancing 2 s per reading, so that the reload's own 2.5 s deadline expires after one failed attempt: it must report failure, never success with a stale or empty stack. Also table-unlink fault sweeps: the unlink of a dropped table fails (read-only directory / EIO) at each removal a stale handle's reload, a compaction, Close or Clean performs - the handle must end on one consistent version and stay readable.",
   note="Same engine assumptions as C04. Does not require that the handle sees the newest version.",
   technique="runtime monitoring: snapshot-consistency monitor (handle view vs. recorded list versions) under seeded schedules"),
 "C16": dict(level="exploration", design="5/C16", engine="engineA",
   text="Same engine; M-own ledger of every file a process created or became responsible for (locks, temp tables, tables renamed into place but not yet listed, tables its commit dropped from the list): empty whenever the process returns from a call; at global quiescence the directory is exactly tables.list + listed tables (before and after closing the handles). Crash part: after another process was killed at every point of its operation, Clean/Close of a live process never remove a listed table, do not panic and succeed. Plus sequential multi-handle histories with failed Adds, stale compactions and empty stacks. I/O fault sweeps: every hooked filesystem operation of every call kind fails once with an injected error (removals exempt); the failed call must still release every lock and temporary file it created. Also late-clock pair sweeps and table-unlink fault sweeps (a file whose unlink failed with the injected error is excused, nothing else).",
   note="Same engine assumptions as C04. A Clean that fails because it races with another live process's cleanup is not counted (the property only demands release of what was taken).",
   technique="runtime monitoring: resource-ownership ledger checked at every idle point and at quiescence, with crash injection and I/O fault injection"),
 "C03": dict(level="exploration", design="5/C03",
   text="Table sets of 1..6 tables with increasing update-index ranges over a small overlapping key alphabet (updates, deletions, re-creations, log tombstones with old update indices) are read through the raw merged view and through Stack.Merged() over hand-placed files; full scans and seeks at every key class are compared with the newest-wins overlay computed from the inputs. Also: wide sets (7..30 tables); nested views (a raw view over a raw view, and over the stack view, of the older tables plus the newer tables); full scans with every block read of every table failing in turn (error or the undisturbed result, never a silently shorter one). Also, per view: 2..4 iterators of the one Merged open at the same time and advanced in turn (interleaved-iterators oracle).",
   note="Trusts the generator and the overlay reference (gen/multi.go).",
   technique="runtime monitoring: reference-model oracle (newest-wins overlay) over real merged iterators on generated table sets"),
 "C07": dict(level="exploration", design="5/C07",
   text="Model-driven single-handle histories (creates, updates, deletes, symrefs, peeled tags, log appends, log tombstones, varied table sizes) with auto-compaction, CompactAll, AutoCompact and reopen; after every call the handle's full ref+log scan must equal the reference model, a fresh handle every 5 calls. The harness tracks which tables were merged, so the evidence counts compactions of upper ranges holding a tombstone for a key that lives in a lower table. Also: the capacity-window family (records at the capacity of a block that become the first record of the compacted table) and, under the engine's commit monitor, compactions whose filesystem calls - reads of the input tables included, long log sections - fail once each: a compaction fails or commits exactly the content of its inputs. Also under the engine-A scheduler (M-commit: a compaction's commit leaves the view unchanged): two handles compacting explicitly chosen disjoint / nested / overlapping ranges and CompactAll / AutoCompact / expiry compactions parked before each of their filesystem operations while the other handle compacts and adds; I/O-fault sweeps over compaction inputs. Also section-mix layouts: stacks built table by table so that log-only / ref-only tables lie beneath compacted ranges holding their tombstones, every upper range compacted in turn; and CompactAll with an expiry configuration that expires nothing (rewrites single-table stacks).",
   note="Trusts the reference stack model (gen/txn.go). Which range gets compacted is decided by the code under test; ranges are steered only through table sizes.",
   technique="runtime monitoring: reference-model oracle over real stack histories, views compared before/after every compaction"),
 "C09": dict(level="exploration", design="5/C09",
   text="Sequential random histories over 2..4 handles; the harness reads tables.list independently and knows which handles are stale. Stale Add/NewAddition must return ErrLockFailure, stale CompactAll/AutoCompact/Clean must leave the directory byte-identical; after a failed Add UpToDate(), NextUpdateIndex() and the immediate retry are checked. Operations include expiry compactions and Addition left open across other handles' writes. Also: views of handles that hold exactly the listed tables are compared with the model before every call; Adds carrying an already committed update index (prepared before another handle's Add) must fail and change nothing; a fifth of the histories run with coarse time stamps (all files carry equal mtimes); restart histories (the stack is emptied, numbering restarts, the same update-index ranges are committed again with other content while a second handle still holds the first generation).",
   note="Sequential by construction (the property quantifies over sequential histories); interleavings are C04's.",
   technique="runtime monitoring: staleness reference model + directory snapshots around every call of real multi-handle histories"),
 "C11": dict(level="exploration", design="5/C11",
   text="RefsFor is called for every occurring object id (<=40 per table) and for absent ids on tables with pooled ids (object index present, skipped, position lists omitted, min update index > 0), on raw merged views and on stack views over generated table sets; oracle = filter of the generator's list / of the overlay with absolute update indices. Also: RefsFor / SeekRef iterators of one Reader or Merged open at the same time and advanced in turn (a nested lookup inside another lookup's result loop): each must yield what it yields alone.",
   note="Trusts the generator; the independent decoder tells which tables carry omitted position lists.",
   technique="runtime monitoring: reference-model oracle (filter of the input list) over real RefsFor iterators"),
 "C12": dict(level="exploration", design="5/C12",
   text="Histories of transactions over names built from {a,b,c,ab} up to depth 3 plus malformed names, submitted through Stack.Add and as tables of 2..3-table Additions; the reference rule L'=(L-D)uA is checked in both directions (accepted <=> acceptable) and the live names of the stack are scanned for conflicts after every commit.",
   note="Trusts the 20-line reference rule in props/c12.go.",
   technique="runtime monitoring: executable reference rule + invariant scan of live names after every commit of real histories"),
 "C13": dict(level="exploration", design="5/C13",
   text="CompactAll(expiry) on generated stacks (0..6 tables, several entries per ref, tombstones) with each limit unset / below / equal / inside / above the data range; expected = reference filter over the model view, refs untouched, through the same handle and a fresh one, idempotence on repeat. Round 2 (60% of the cases): more log entries arrive through Stack.Add or NewAddition/Add/Commit on the same handle and the SAME configuration is applied again - it must expire exactly the new entries it covers.",
   note="Trusts the reference filter keepLog in props/c13.go.",
   technique="runtime monitoring: reference filter oracle over real CompactAll(expiry) executions at boundary values"),
 "C17": dict(level="exploration", design="5/C17",
   text="(a) the real segment chooser is called on every size vector of length <=5 (quick) / <=6 (thorough) over 11 representative sizes and on random longer vectors and judged by the three stated conditions; (b) single-writer workloads of identical-size transactions (size equality measured from the files) are monitored after every Add: depth <= 2*log2(n), entries rewritten <= n*log2(n)*e, every successful auto-compaction strictly reduces the table count over a contiguous range. Known findings (entries bound exceeded for tiny N and for rewritten-names-with-logs workloads) are listed in known_findings.json. Also: AutoCompact through a second, stale handle: whatever it does, it must not merge tables of an on-disk list in which no two adjacent tables share a class.",
   note="Chooser reached through export/zz_verif_export2.go (same unexported function the repository's own test calls); falls back to real stacks only if the wrapper does not compile.",
   technique="runtime monitoring: enumerated inputs to the real chooser judged by the stated conditions + bound monitors on Stats/table count after every Add of long real workloads"),
 "C14": dict(level="exploration", design="5/C14",
   text="Every file emitted by the real writer in this run (generated tables of all configurations; stack additions and compactions) is decoded by an independent decoder written from the format description and compared with its source records, rule by rule (header/footer/CRC, padding, restarts, key order, every index entry at every level, object-index position lists, update-index range). Also: record sizes swept across the capacity of a block (first / later record, first / later block, 5 block sizes).",
   note="Trusts my reading of the format (DESIGN.md appendix A) and the Go standard library zlib/crc32.",
   technique="runtime monitoring: independent format decoder as oracle over files emitted by executions of the real writer/stack"),
 "C01": dict(level="exploration", design="5/C01",
   text="Generated tables (all Config values x limits x record shapes, deterministic from VERIF_SEED) are written by the real Writer and scanned by the real Reader; the oracle is the generator's own record list after the documented normalisation only. Held = every generated table of this run read back exactly. Also (one table in eight): the same table written through an io.Writer whose k-th Write fails, once or from then on, for every k: some AddRef/AddLog/Close call must report the error and the writer must not panic - a table counts as produced without error only if every Write succeeded. Also (one table in four): the table is written again while another Writer writes a table inside every Write call of its io.Writer, and (one in sixteen) by eight goroutines at once, each with its own Writer - the bytes must be identical to the undisturbed table (Writers share no state).",
   note="Trusts the harness's generator/normaliser (gen/) and Go's compress/zlib. Inputs rejected by the writer are counted out-of-domain, not held.",
   technique="runtime monitoring: reference-model oracle (generator's record list) over executions of the real writer+reader on generated inputs"),
 "C02": dict(level="exploration", design="5/C02",
   text="Every key class around every record key (exact, predecessor, successor, prefix, +-1, empty, beyond-last; for logs update index u, u+-1, 0, max) is sought in writer-produced tables with 0..3 index levels; oracle = suffix of the generator's list. Also (one table in eight): every ReadBlock of the block source fails once in turn while the table is opened, scanned and sought: each answer must be an error or exactly the undisturbed answer (a read error never becomes a silently shorter result), and the reader must not panic. Also, per table: 2..4 iterators of the one Reader (SeekRef / SeekLog at PRNG-chosen keys) are open at the same time and advanced one record at a time in PRNG-chosen order, new seeks issued in between; each must yield exactly the suffix it yields alone.",
   note="Trusts the generator; for large tables only a window after the landing point is compared for most keys (full suffix for every 16th key and near the end).",
   technique="runtime monitoring: reference-model oracle (binary search in the input list) over real Reader seeks on generated tables"),
}

NOT_YET = {
}

def main():
    props = [json.loads(l) for l in open(os.path.join(V, "properties.jsonl"))]
    checks = []
    na = []
    for p in props:
        pid = p["id"]
        c = CHECKS.get(pid)
        if not c:
            na.append(dict(property_id=pid, reason=NOT_YET.get(pid, "check not built yet in this session (work in progress; see DESIGN.md section 5 for the planned monitor)")))
            continue
        checks.append(dict(
            property_id=pid,
            quick_cmd="./check %s quick" % pid,
            thorough_cmd="./check %s thorough" % pid,
            evidence_file="/verif/evidence/%s.json" % pid,
            replay_cmd_template="./check %s --replay {path}" % pid,
            engine=c.get("engine", "harness"),
            level_claimed=dict(category=c["level"], text=c["text"], design_ref="DESIGN.md section " + c["design"]),
            level_note=c["note"],
            technique=c["technique"],
        ))
    m = dict(
        version=1,
        setup_cmd="./setup.sh",
        hooks=dict(
            guard="verifvfs (build-time import rewriting of a scratch copy; no hook code in /repo)",
            enable="./check copies /repo's working tree to a scratch dir, rewrites the import specs os/io-ioutil/time to /verif/vfs shim packages (tools/rewrite), adds export/zz_verif_export*.go and builds the harness against that copy",
            baseline_off_cmd=BASELINE_OFF,
            source_commits=[],
            add_only=True,
        ),
        engines=[
            dict(name="harness", path="/verif/harness", serves_properties=sorted(CHECKS), kind_free_text="Go harness: generators, reference models, independent decoder, monitors; built per run against a rewritten copy of the working tree"),
            dict(name="engineA", path="/verif/vfs/vos/sched.go", serves_properties=[p for p in ["C04","C05","C06","C07","C08","C10","C16"] if p in CHECKS], kind_free_text="token-passing scheduler over hooked filesystem calls of goroutine 'virtual processes' on a real directory; seeded schedules, pause sweeps, crash injection"),
        ],
        checks=checks,
        notes="Runtime monitoring only: every verdict is 'held on the executions listed in the evidence file'. known_findings.json lists defects (fixed by 'fix:' commits in /repo, or known).",
        not_applicable=na,
    )
    with open(os.path.join(V, "MANIFEST.json"), "w") as f:
        json.dump(m, f, indent=1)
    print("wrote MANIFEST.json: %d checks, %d not claimed" % (len(checks), len(na)))

if __name__ == "__main__":
    main()
