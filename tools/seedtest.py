#!/usr/bin/env python3
"""seedtest.py <prop> <dir-with-patch.diff+zz_demo_test.go> [--checks C04,C05] [--tier quick] [--keep-as NAME]

Confirms a seeded change (suite passes with it, demo fails with it, demo passes without
it) in a scratch worktree of /repo and runs the given checks against that worktree
(VERIF_REPO). Prints a one-line verdict per check. With --keep-as the confirmed change
is stored as /verif/seeded/<NAME>/ (patch.diff, demo, meta.json)."""
import json, os, shutil, subprocess, sys, tempfile, time

ENV = dict(os.environ, GOFLAGS="-mod=mod", GOPROXY="off", GOSUMDB="off", GOTOOLCHAIN="local")


def sh(cmd, cwd=None, timeout=1800):
    p = subprocess.run(cmd, cwd=cwd, env=ENV, shell=isinstance(cmd, str), stdout=subprocess.PIPE, stderr=subprocess.STDOUT, text=True, timeout=timeout)
    return p.returncode, p.stdout


def main():
    args = sys.argv[1:]
    prop, src = args[0], os.path.abspath(args[1])
    checks = [prop]
    tier = "quick"
    keep = None
    i = 2
    while i < len(args):
        if args[i] == "--checks":
            checks = args[i + 1].split(","); i += 1
        elif args[i] == "--tier":
            tier = args[i + 1]; i += 1
        elif args[i] == "--keep-as":
            keep = args[i + 1]; i += 1
        i += 1
    patch = os.path.join(src, "patch.diff")
    demo = os.path.join(src, "zz_demo_test.go")
    wt = tempfile.mkdtemp(prefix="mt-%s-" % prop, dir="/tmp")
    os.rmdir(wt)
    rc, out = sh(["git", "-C", "/repo", "worktree", "add", "-q", "--detach", wt, "HEAD"])
    if rc != 0:
        print("worktree failed", out); sys.exit(2)
    result = dict(property=prop, source=src, checks={}, confirmed=False)
    try:
        rc, out = sh(["git", "apply", patch], cwd=wt)
        if rc != 0:
            rc, out = sh(["git", "apply", "--3way", patch], cwd=wt)
        if rc != 0:
            print("PATCH DOES NOT APPLY to current HEAD:", out[:300]); result["error"] = "patch does not apply"; return result
        rc, out = sh("go build ./... && go test -count=1 . 2>&1 | tail -3", cwd=wt)
        suite_ok = rc == 0 and "ok" in out and "FAIL" not in out
        result["suite_passes_with_change"] = suite_ok
        demo_fails = demo_passes_clean = None
        # auxiliary files the demo needs (e.g. a C tool for C15 demos)
        aux = [f for f in os.listdir(src) if f not in ("patch.diff", "notes.md", "zz_demo_test.go") and os.path.isfile(os.path.join(src, f)) and f.endswith((".c", ".h", ".sh", ".go"))]
        demo_flags = "-race " if prop == "C19" else ""
        # auxiliary files go where the agent had them: out/<n>/ inside the worktree
        # (a stored change seeded/<prop>-[rN-]<i> came from out/<i>/)
        auxname = os.path.basename(os.path.normpath(src))
        if os.path.dirname(os.path.normpath(src)).endswith("/seeded"):
            auxname = auxname.split("-")[-1]
        auxdir = os.path.join(wt, "out", auxname)
        def place():
            shutil.copy(demo, os.path.join(wt, "zz_demo_test.go"))
            os.makedirs(auxdir, exist_ok=True)
            for f in aux:
                shutil.copy(os.path.join(src, f), os.path.join(auxdir, f))
        def unplace():
            os.remove(os.path.join(wt, "zz_demo_test.go"))
            shutil.rmtree(os.path.join(wt, "out"), ignore_errors=True)
        if os.path.exists(demo):
            place()
            rc, out = sh("go test %s-count=1 -run TestDemo . 2>&1 | tail -5" % demo_flags, cwd=wt)
            demo_fails = "FAIL" in out
            unplace()
            # clean tree
            # (no git stash: the stash is shared by all worktrees of a repository, so
            # two seedtest runs at the same time would pop each other's patch)
            sh(["git", "diff", "--binary", "--output=" + wt + ".applied.diff"], cwd=wt)
            sh(["git", "checkout", "--", "."], cwd=wt)
            place()
            rc, out2 = sh("go test %s-count=1 -run TestDemo . 2>&1 | tail -5" % demo_flags, cwd=wt)
            demo_passes_clean = "FAIL" not in out2 and "ok" in out2
            unplace()
            rc, out3 = sh(["git", "apply", wt + ".applied.diff"], cwd=wt)
            os.remove(wt + ".applied.diff")
            if rc != 0:
                print("could not re-apply the change:", out3[:300]); result["error"] = "re-apply failed"; return result
        result["demo_fails_with_change"] = demo_fails
        result["demo_passes_without_change"] = demo_passes_clean
        result["confirmed"] = bool(suite_ok and demo_fails and demo_passes_clean)
        print("confirm: suite_passes=%s demo_fails_with=%s demo_passes_without=%s" % (suite_ok, demo_fails, demo_passes_clean))
        for chk in checks:
            t0 = time.time()
            e = dict(ENV, VERIF_REPO=wt)
            p = subprocess.run(["/verif/check", chk, tier], cwd="/verif", env=e, stdout=subprocess.PIPE, stderr=subprocess.PIPE, text=True)
            viol = [l for l in p.stdout.splitlines() if l.startswith("VIOLATION")]
            sigs = [l.strip()[:200] for l in p.stderr.splitlines() if l.startswith("  [")]
            result["checks"][chk] = dict(exit=p.returncode, violations=len(viol), sigs=sigs[:6], wall=round(time.time() - t0, 1))
            print("check %s %s: exit=%d violations=%d %s (%.0fs)" % (chk, tier, p.returncode, len(viol), "; ".join(s[:110] for s in sigs[:3]), time.time() - t0))
            for l in p.stderr.splitlines():
                if "dropped" in l or "watchdog" in l:
                    print("  note:", l[:200])
            if p.returncode == 2:
                print(p.stderr[-1500:])
        if keep and result["confirmed"]:
            d = os.path.join("/verif/seeded", keep)
            os.makedirs(d, exist_ok=True)
            shutil.copy(patch, os.path.join(d, "patch.diff"))
            if os.path.exists(demo):
                shutil.copy(demo, os.path.join(d, "zz_demo_test.go"))
            for f in aux:
                shutil.copy(os.path.join(src, f), os.path.join(d, f))
            notes = os.path.join(src, "notes.md")
            if os.path.exists(notes):
                shutil.copy(notes, os.path.join(d, "notes.md"))
            meta = dict(property=prop, origin="independent sub-agent given only the property text and a scratch worktree",
                        base_commit=subprocess.check_output(["git", "-C", "/repo", "rev-parse", "HEAD"], text=True).strip(),
                        confirmed=dict(suite_passes_with_change=suite_ok, demo_fails_with_change=demo_fails, demo_passes_without_change=demo_passes_clean,
                                       how="tools/seedtest.py: scratch worktree of /repo HEAD, git apply patch.diff, go test -count=1 ., go test -run TestDemo with and without the patch"),
                        checks_run={k: dict(tier=tier, detected=v["violations"] > 0, signatures=v["sigs"]) for k, v in result["checks"].items()})
            with open(os.path.join(d, "meta.json"), "w") as f:
                json.dump(meta, f, indent=1)
        return result
    finally:
        sh(["git", "-C", "/repo", "worktree", "remove", "--force", wt])
        shutil.rmtree(wt, ignore_errors=True)


if __name__ == "__main__":
    main()
