#!/bin/sh
# Run once after a fresh restore, offline. Warms Go's build cache (standard library,
# -race runtime, porcupine, the harness) so that later ./check runs only recompile what
# changed. Builds nothing that later commands depend on.
set -e
cd "$(dirname "$0")"
export GOFLAGS=-mod=mod GOPROXY=off GOSUMDB=off GOTOOLCHAIN=local
VERIF_WARM=1 ./check C01 quick --scale 0.02 >/dev/null 2>&1 || true
echo "setup done"
