#!/bin/sh
# Run once after a fresh restore, offline. Warms Go's build cache (standard library,
# -race runtime, porcupine, the harness) so that later ./check runs only recompile what
# changed. Builds nothing that later commands depend on.
set -e
cd "$(dirname "$0")"
export GOFLAGS=-mod=mod GOPROXY=off GOSUMDB=off GOTOOLCHAIN=local
./check C01 quick --scale 0.02 >/dev/null 2>&1 || true
./check C19 quick --scale 0.1 >/dev/null 2>&1 || true
git checkout -- evidence 2>/dev/null || true
echo "setup done"
