#!/bin/sh
# Run once after a fresh restore, offline. Warms Go's build cache (standard library,
# -race runtime, porcupine, the harness, the C driver's objects are not cached) so that
# later ./check runs only recompile what changed. Builds nothing that later commands
# depend on and writes no evidence.
set -e
cd "$(dirname "$0")"
export GOFLAGS=-mod=mod GOPROXY=off GOSUMDB=off GOTOOLCHAIN=local
VERIF_NO_EVIDENCE=1 ./check C01 quick --scale 0.02 >/dev/null 2>&1 || true
VERIF_NO_EVIDENCE=1 ./check C19 quick --scale 0.1 >/dev/null 2>&1 || true
echo "setup done"
