package reftable

// VerifCompactRange compacts the contiguous range [first,last] of the stack's tables,
// i.e. it calls the same unexported function that CompactAll and AutoCompact call with
// the range they chose. It lets the harness reach every contiguous range, not only the
// ones today's segment chooser happens to pick.
func (st *Stack) VerifCompactRange(first, last int) (bool, error) {
	if first < 0 || last >= len(st.stack) || first > last {
		return false, nil
	}
	return st.compactRangeStats(first, last, nil)
}
