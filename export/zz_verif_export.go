package reftable

// VerifSetAutoCompact switches the auto-compaction that follows Add on or off.
// (Uses the same unexported field as the repository's own tests.)
func (st *Stack) VerifSetAutoCompact(on bool) { st.disableAutoCompact = !on }
