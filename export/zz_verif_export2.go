package reftable

// VerifSuggestSegment exposes the segment chooser (same unexported function the
// repository's own TestSuggestCompactionSegment calls). ok=false means "nothing to do".
func VerifSuggestSegment(sizes []uint64) (start, end int, ok bool) {
	cp := append([]uint64(nil), sizes...)
	seg := suggestCompactionSegment(cp)
	if seg == nil {
		return 0, 0, false
	}
	return seg.start, seg.end, true
}
