// Package dec is an independent decoder for the reftable file format, written from the
// format description (DESIGN.md appendix A / reftable specification). It shares no code
// with the code under test: own varint, CRC via hash/crc32, inflate via compress/zlib.
package dec

import (
	"bytes"
	"compress/zlib"
	"encoding/binary"
	"fmt"
	"hash/crc32"
	"io"
	"sort"

	"verif/harness/gen"
)

// Finding is one violated format rule.
type Finding struct {
	Rule string // stable rule id
	Msg  string
}

func (f Finding) String() string { return f.Rule + ": " + f.Msg }

type Block struct {
	Off      int    // offset of the block in the file
	Type     byte   // r o g i
	Len      int    // block_len field
	FullLen  int    // bytes occupied in the file including padding / compressed size
	Padded   bool   // followed by zero padding
	FirstKey string
	LastKey  string
	NRec     int
	Restarts int
	// decoded index entries for 'i' blocks
	Idx []IdxEntry
	// for 'r' blocks: object ids referenced in this block
	oids map[string]bool
}

type IdxEntry struct {
	Key string
	Pos uint64
	// ValOff/ValLen: where the position varint sits, relative to the start of the block
	// (only meaningful for uncompressed blocks)
	ValOff, ValLen int
}

type ObjEntry struct {
	Prefix    string
	Positions []uint64
}

type Info struct {
	Version   int
	HashSize  int
	BlockSize int
	Min, Max  uint64
	HdrSize   int
	FtrSize   int

	RefIndexPos, ObjPos, ObjIndexPos, LogPos, LogIndexPos uint64
	ObjIDLen                                             int

	Blocks []Block

	RefBlocks, ObjBlocks, LogBlocks                         int
	RefIndexBlocks, ObjIndexBlocks, LogIndexBlocks          int
	RefIndexLevels, ObjIndexLevels, LogIndexLevels          int
	LogBlockLongerThanBlockSize                             bool

	Refs []gen.Ref
	Logs []gen.Log
	Objs []ObjEntry
}

// Options for the full pass.
type Options struct {
	// KnownCfg: the configuration the file was written with (enables padding rules).
	KnownCfg *gen.Cfg
	// Structural only: skip index/object-index cross checks.
	StructuralOnly bool
}

type decoder struct {
	curValOff int
	data     []byte
	body     []byte
	info     *Info
	findings []Finding
	nf       int
}

func (d *decoder) fail(rule, format string, a ...interface{}) {
	d.nf++
	if len(d.findings) < 20 {
		d.findings = append(d.findings, Finding{rule, fmt.Sprintf(format, a...)})
	}
}

func getVarint(b []byte) (uint64, int) {
	if len(b) == 0 {
		return 0, -1
	}
	i := 0
	v := uint64(b[0] & 0x7f)
	for b[i]&0x80 != 0 {
		i++
		if i >= len(b) || i > 9 {
			return 0, -1
		}
		v = ((v + 1) << 7) | uint64(b[i]&0x7f)
	}
	return v, i + 1
}

func u24(b []byte) int { return int(b[0])<<16 | int(b[1])<<8 | int(b[2]) }

// Layout runs the structural pass only and returns the layout information.
func Layout(data []byte) (*Info, error) {
	info, f := Decode(data, Options{StructuralOnly: true})
	if info == nil {
		return nil, fmt.Errorf("%v", f)
	}
	return info, nil
}

// Decode decodes a file. info is nil only if the header/footer could not be parsed.
func Decode(data []byte, opt Options) (*Info, []Finding) {
	d := &decoder{data: data}
	if !d.headerFooter() {
		return nil, d.findings
	}
	d.walkBlocks(opt)
	if d.nf == 0 && !opt.StructuralOnly {
		d.checkSections(opt)
	} else if d.nf == 0 {
		d.sectionCounts()
	}
	return d.info, d.findings
}

func (d *decoder) headerFooter() bool {
	data := d.data
	if len(data) < 24+68 {
		d.fail("file.size", "file of %d bytes is smaller than header+footer", len(data))
		return false
	}
	if string(data[:4]) != "REFT" {
		d.fail("header.magic", "magic %q", data[:4])
		return false
	}
	in := &Info{}
	d.info = in
	in.Version = int(data[4])
	switch in.Version {
	case 1:
		in.HdrSize, in.FtrSize, in.HashSize = 24, 68, 20
	case 2:
		in.HdrSize, in.FtrSize = 28, 72
	default:
		d.fail("header.version", "version %d", in.Version)
		return false
	}
	if len(data) < in.HdrSize+in.FtrSize {
		d.fail("file.size", "file of %d bytes is smaller than header+footer", len(data))
		return false
	}
	in.BlockSize = u24(data[5:8])
	in.Min = binary.BigEndian.Uint64(data[8:16])
	in.Max = binary.BigEndian.Uint64(data[16:24])
	if in.Version == 2 {
		switch string(data[24:28]) {
		case "sha1":
			in.HashSize = 20
		case "s256":
			in.HashSize = 32
		default:
			d.fail("header.hashid", "hash id %q", data[24:28])
			return false
		}
	}
	if in.Min > in.Max {
		d.fail("header.limits", "min_update_index %d > max_update_index %d", in.Min, in.Max)
	}
	ftr := data[len(data)-in.FtrSize:]
	if !bytes.Equal(ftr[:in.HdrSize], data[:in.HdrSize]) {
		d.fail("footer.header-copy", "footer does not repeat the header: %x vs %x", ftr[:in.HdrSize], data[:in.HdrSize])
	}
	p := ftr[in.HdrSize:]
	in.RefIndexPos = binary.BigEndian.Uint64(p[0:])
	op := binary.BigEndian.Uint64(p[8:])
	in.ObjPos, in.ObjIDLen = op>>5, int(op&31)
	in.ObjIndexPos = binary.BigEndian.Uint64(p[16:])
	in.LogPos = binary.BigEndian.Uint64(p[24:])
	in.LogIndexPos = binary.BigEndian.Uint64(p[32:])
	crc := binary.BigEndian.Uint32(p[40:])
	if want := crc32.ChecksumIEEE(ftr[:in.FtrSize-4]); crc != want {
		d.fail("footer.crc", "footer CRC-32 %08x, computed %08x", crc, want)
	}
	d.body = data[:len(data)-in.FtrSize]
	return true
}

// walkBlocks walks all blocks sequentially and decodes their records.
func (d *decoder) walkBlocks(opt Options) {
	in := d.info
	body := d.body
	if len(body) == in.HdrSize {
		return // empty table: header + footer
	}
	off := 0
	var prevType byte
	var prevKey string
	for off < len(body) {
		hoff := 0
		if off == 0 {
			hoff = in.HdrSize
		}
		if off+hoff+4 > len(body) {
			d.fail("block.truncated", "block header at %d exceeds file body (%d)", off, len(body))
			return
		}
		typ := body[off+hoff]
		blen := u24(body[off+hoff+1:])
		switch typ {
		case 'r', 'o', 'g', 'i':
		default:
			d.fail("block.type", "unknown block type 0x%02x at offset %d", typ, off)
			return
		}
		b := Block{Off: off, Type: typ, Len: blen}
		var content []byte // block bytes from block start (including file header for block 0), length blen
		if blen < hoff+4+2 {
			d.fail("block.len", "block at %d: block_len %d too small", off, blen)
			return
		}
		if typ == 'g' {
			br := bytes.NewReader(body[off+hoff+4:])
			zr, err := zlib.NewReader(br)
			if err != nil {
				d.fail("logblock.zlib", "log block at %d: %v", off, err)
				return
			}
			var out bytes.Buffer
			if _, err := io.Copy(&out, io.LimitReader(zr, int64(blen)+1)); err != nil {
				d.fail("logblock.zlib", "log block at %d: inflate: %v", off, err)
				return
			}
			// make sure the stream really ended (consumes the checksum)
			var one [1]byte
			if n, _ := zr.Read(one[:]); n != 0 {
				d.fail("logblock.len", "log block at %d inflates to more than block_len %d", off, blen)
				return
			}
			if out.Len() != blen-hoff-4 {
				d.fail("logblock.len", "log block at %d: inflated %d bytes, block_len says %d", off, out.Len(), blen-hoff-4)
				return
			}
			consumed := len(body[off+hoff+4:]) - br.Len()
			b.FullLen = hoff + 4 + consumed
			content = make([]byte, 0, blen)
			content = append(content, body[off:off+hoff+4]...)
			content = append(content, out.Bytes()...)
			if in.BlockSize > 0 && b.FullLen > in.BlockSize {
				in.LogBlockLongerThanBlockSize = true
			}
			if in.BlockSize > 0 && blen > in.BlockSize {
				d.fail("block.len", "log block at %d: inflated block_len %d exceeds block_size %d", off, blen, in.BlockSize)
			}
		} else {
			if off+blen > len(body) {
				d.fail("block.len", "block at %d: block_len %d exceeds file body", off, blen)
				return
			}
			if in.BlockSize > 0 && blen > in.BlockSize {
				d.fail("block.len", "%c block at %d: block_len %d exceeds block_size %d", typ, off, blen, in.BlockSize)
			}
			content = body[off : off+blen]
			end := off + blen
			b.FullLen = blen
			if end < len(body) && body[end] == 0 {
				// zero padding up to block_size
				b.Padded = true
				next := off + in.BlockSize
				if in.BlockSize == 0 || next <= end {
					d.fail("block.padding", "block at %d (len %d) is followed by a zero byte but block_size %d leaves no room for padding", off, blen, in.BlockSize)
					return
				}
				lim := next
				if lim > len(body) {
					d.fail("block.padding", "block at %d: padding runs into the footer (block would end at %d, body is %d)", off, next, len(body))
					lim = len(body)
				}
				for i := end; i < lim; i++ {
					if body[i] != 0 {
						d.fail("block.padding", "block at %d: non-zero padding byte at %d", off, i)
						return
					}
				}
				b.FullLen = lim - off
			}
		}
		if typ != prevType || typ == 'i' {
			// index blocks of consecutive levels restart the key space; their keys are
			// checked entry by entry against the child blocks instead
			prevKey = ""
		}
		if !d.decodeBlock(&b, content, hoff, prevKey) {
			return
		}
		prevKey = b.LastKey
		prevType = typ
		in.Blocks = append(in.Blocks, b)
		off += b.FullLen
	}
	// padding rules that need the configuration
	if opt.KnownCfg != nil {
		for i := range in.Blocks {
			b := &in.Blocks[i]
			if b.Type == 'g' {
				continue
			}
			last := i == len(in.Blocks)-1
			nextIsLog := !last && in.Blocks[i+1].Type == 'g'
			if opt.KnownCfg.Unaligned {
				if b.Padded {
					d.fail("block.padding", "unaligned file has a padded %c block at %d", b.Type, b.Off)
				}
			} else if !last && !nextIsLog && b.FullLen != in.BlockSize {
				d.fail("block.padding", "%c block at %d occupies %d bytes, want block_size %d", b.Type, b.Off, b.FullLen, in.BlockSize)
			} else if (last || nextIsLog) && b.Padded {
				d.fail("block.padding", "%c block at %d before the log section/footer is padded", b.Type, b.Off)
			}
		}
		want := opt.KnownCfg.EffBlockSize()
		if in.BlockSize != want {
			d.fail("header.blocksize", "header block_size %d, configured %d", in.BlockSize, want)
		}
	}
}

// decodeBlock decodes the records of one block. content holds the bytes from the start
// of the block (including the file header for the first block), length block_len.
func (d *decoder) decodeBlock(b *Block, content []byte, hoff int, prevKey string) bool {
	in := d.info
	n := len(content)
	rc := int(binary.BigEndian.Uint16(content[n-2:]))
	rstart := n - 2 - 3*rc
	if rstart < hoff+4 {
		d.fail("block.restarts", "block at %d: restart table (%d entries) overlaps the block header", b.Off, rc)
		return false
	}
	if rc == 0 {
		d.fail("block.restarts", "block at %d has no restart point", b.Off)
		return false
	}
	b.Restarts = rc
	restarts := map[int]bool{}
	last := -1
	for i := 0; i < rc; i++ {
		o := u24(content[rstart+3*i:])
		if o <= last {
			d.fail("block.restarts", "block at %d: restart offsets not strictly ascending (%d after %d)", b.Off, o, last)
			return false
		}
		last = o
		restarts[o] = true
	}
	if !restarts[hoff+4] {
		d.fail("block.restarts", "block at %d: first record (offset %d) is not a restart point", b.Off, hoff+4)
	}
	pos := hoff + 4
	key := ""
	first := true
	if b.Type == 'r' {
		b.oids = map[string]bool{}
	}
	for pos < rstart {
		recStart := pos
		buf := content[pos:rstart]
		pl, s1 := getVarint(buf)
		if s1 <= 0 {
			d.fail("record.key", "block at %d: bad prefix varint at %d", b.Off, pos)
			return false
		}
		sv, s2 := getVarint(buf[s1:])
		if s2 <= 0 {
			d.fail("record.key", "block at %d: bad suffix varint at %d", b.Off, pos)
			return false
		}
		vt := int(sv & 7)
		sl := int(sv >> 3)
		if int(pl) > len(key) {
			d.fail("record.key", "block at %d: prefix_len %d longer than previous key (%d) at %d", b.Off, pl, len(key), pos)
			return false
		}
		if s1+s2+sl > len(buf) {
			d.fail("record.key", "block at %d: suffix runs past the records area at %d", b.Off, pos)
			return false
		}
		nk := key[:pl] + string(buf[s1+s2:s1+s2+sl])
		if restarts[recStart] {
			if pl != 0 {
				d.fail("block.restarts", "block at %d: restart offset %d points at a record with prefix_len %d", b.Off, recStart, pl)
			}
			delete(restarts, recStart)
		}
		if first {
			if pl != 0 {
				d.fail("record.key", "block at %d: first record has prefix_len %d", b.Off, pl)
				return false
			}
			b.FirstKey = nk
			if prevKey != "" && !(prevKey < nk) {
				d.fail("keys.order", "%c block at %d: first key %q not greater than last key %q of the previous block", b.Type, b.Off, nk, prevKey)
			}
		} else if !(key < nk) {
			d.fail("keys.order", "%c block at %d: key %q not greater than previous key %q", b.Type, b.Off, nk, key)
		}
		first = false
		key = nk
		pos += s1 + s2 + sl
		d.curValOff = pos
		vn, ok := d.decodeValue(b, content[pos:rstart], key, vt)
		if !ok {
			return false
		}
		pos += vn
		b.NRec++
		_ = in
	}
	if b.NRec == 0 {
		d.fail("block.empty", "block at %d holds no record", b.Off)
		return false
	}
	for o := range restarts {
		d.fail("block.restarts", "block at %d: restart offset %d does not point at the start of a record", b.Off, o)
		break
	}
	b.LastKey = key
	return true
}

func (d *decoder) decodeValue(b *Block, buf []byte, key string, vt int) (int, bool) {
	in := d.info
	hs := in.HashSize
	switch b.Type {
	case 'r':
		delta, s := getVarint(buf)
		if s <= 0 {
			d.fail("ref.value", "block at %d: bad update_index varint for %q", b.Off, key)
			return 0, false
		}
		n := s
		r := gen.Ref{Name: key, UI: in.Min + delta}
		if in.Min+delta < in.Min || in.Min+delta > in.Max {
			d.fail("ref.update-index", "ref %q: update index %d outside header range [%d,%d]", key, in.Min+delta, in.Min, in.Max)
		}
		switch vt {
		case 0:
			r.Kind = gen.KDel
		case 1:
			if len(buf) < n+hs {
				d.fail("ref.value", "ref %q: truncated value", key)
				return 0, false
			}
			r.Kind = gen.KVal
			r.Value = append([]byte(nil), buf[n:n+hs]...)
			n += hs
		case 2:
			if len(buf) < n+2*hs {
				d.fail("ref.value", "ref %q: truncated value", key)
				return 0, false
			}
			r.Kind = gen.KPeeled
			r.Value = append([]byte(nil), buf[n:n+hs]...)
			r.Peeled = append([]byte(nil), buf[n+hs:n+2*hs]...)
			n += 2 * hs
		case 3:
			tl, s := getVarint(buf[n:])
			if s <= 0 || len(buf) < n+s+int(tl) {
				d.fail("ref.value", "ref %q: truncated symref target", key)
				return 0, false
			}
			r.Kind = gen.KSym
			r.Target = string(buf[n+s : n+s+int(tl)])
			n += s + int(tl)
		default:
			d.fail("ref.value", "ref %q: value_type %d", key, vt)
			return 0, false
		}
		if key == "" {
			d.fail("ref.value", "empty ref name")
		}
		if r.Value != nil {
			b.oids[string(r.Value)] = true
		}
		if r.Peeled != nil {
			b.oids[string(r.Peeled)] = true
		}
		in.Refs = append(in.Refs, r)
		return n, true
	case 'g':
		if len(key) < 9 || key[len(key)-9] != 0 {
			d.fail("log.key", "log key %q is not name NUL reverse-update-index", key)
			return 0, false
		}
		l := gen.Log{Name: key[:len(key)-9], UI: ^binary.BigEndian.Uint64([]byte(key[len(key)-8:]))}
		switch vt {
		case 0:
			l.Del = true
			in.Logs = append(in.Logs, l)
			return 0, true
		case 1:
		default:
			d.fail("log.value", "log %q: value_type %d", l.Name, vt)
			return 0, false
		}
		n := 0
		if len(buf) < 2*hs {
			d.fail("log.value", "log %q: truncated hashes", l.Name)
			return 0, false
		}
		l.Old = append([]byte{}, buf[:hs]...)
		l.New = append([]byte{}, buf[hs:2*hs]...)
		n = 2 * hs
		str := func() (string, bool) {
			sl, s := getVarint(buf[n:])
			if s <= 0 || len(buf) < n+s+int(sl) {
				return "", false
			}
			v := string(buf[n+s : n+s+int(sl)])
			n += s + int(sl)
			return v, true
		}
		var ok bool
		if l.User, ok = str(); !ok {
			d.fail("log.value", "log %q: truncated name", l.Name)
			return 0, false
		}
		if l.Email, ok = str(); !ok {
			d.fail("log.value", "log %q: truncated email", l.Name)
			return 0, false
		}
		t, s := getVarint(buf[n:])
		if s <= 0 {
			d.fail("log.value", "log %q: truncated time", l.Name)
			return 0, false
		}
		l.Time = t
		n += s
		if len(buf) < n+2 {
			d.fail("log.value", "log %q: truncated tz", l.Name)
			return 0, false
		}
		l.TZ = int16(binary.BigEndian.Uint16(buf[n:]))
		n += 2
		if l.Msg, ok = str(); !ok {
			d.fail("log.value", "log %q: truncated message", l.Name)
			return 0, false
		}
		in.Logs = append(in.Logs, l)
		return n, true
	case 'i':
		p, s := getVarint(buf)
		if s <= 0 {
			d.fail("index.value", "index block at %d: bad position varint", b.Off)
			return 0, false
		}
		if vt != 0 {
			d.fail("index.value", "index block at %d: value_type %d", b.Off, vt)
		}
		b.Idx = append(b.Idx, IdxEntry{Key: key, Pos: p, ValOff: d.curValOff, ValLen: s})
		return s, true
	case 'o':
		n := 0
		cnt := uint64(vt)
		if vt == 0 {
			c, s := getVarint(buf)
			if s <= 0 {
				d.fail("obj.value", "obj block at %d: bad count varint", b.Off)
				return 0, false
			}
			cnt = c
			n = s
		}
		e := ObjEntry{Prefix: key}
		var lastp uint64
		for i := uint64(0); i < cnt; i++ {
			v, s := getVarint(buf[n:])
			if s <= 0 {
				d.fail("obj.value", "obj block at %d: truncated position list", b.Off)
				return 0, false
			}
			n += s
			if i == 0 {
				lastp = v
			} else {
				if v == 0 {
					d.fail("obj.positions", "obj %x: position delta 0 (positions must ascend)", key)
				}
				lastp += v
			}
			e.Positions = append(e.Positions, lastp)
		}
		in.Objs = append(in.Objs, e)
		return n, true
	}
	return 0, false
}

type section struct {
	typ          byte
	blocks       []int // indices into info.Blocks
	idxBlocks    []int
	levels       int
	topPos       int
}

func (d *decoder) sections() (secs []*section, ok bool) {
	in := d.info
	// expected order: r* i* o* i* g* i*
	order := []byte{'r', 'o', 'g'}
	i := 0
	for _, t := range order {
		s := &section{typ: t}
		for i < len(in.Blocks) && in.Blocks[i].Type == t {
			s.blocks = append(s.blocks, i)
			i++
		}
		if len(s.blocks) > 0 {
			for i < len(in.Blocks) && in.Blocks[i].Type == 'i' {
				s.idxBlocks = append(s.idxBlocks, i)
				i++
			}
		}
		secs = append(secs, s)
	}
	if i != len(in.Blocks) {
		d.fail("sections.order", "block %d (%c at %d) is out of section order r,i,o,i,g,i", i, in.Blocks[i].Type, in.Blocks[i].Off)
		return secs, false
	}
	return secs, true
}

func (d *decoder) sectionCounts() {
	secs, ok := d.sections()
	if !ok {
		return
	}
	in := d.info
	for _, s := range secs {
		lv := d.levels(s, false)
		switch s.typ {
		case 'r':
			in.RefBlocks, in.RefIndexBlocks, in.RefIndexLevels = len(s.blocks), len(s.idxBlocks), lv
		case 'o':
			in.ObjBlocks, in.ObjIndexBlocks, in.ObjIndexLevels = len(s.blocks), len(s.idxBlocks), lv
		case 'g':
			in.LogBlocks, in.LogIndexBlocks, in.LogIndexLevels = len(s.blocks), len(s.idxBlocks), lv
		}
	}
}

// levels splits the index blocks of a section into levels and (if check) validates
// every entry. Returns the number of levels.
func (d *decoder) levels(s *section, check bool) int {
	in := d.info
	if len(s.idxBlocks) == 0 {
		return 0
	}
	children := s.blocks
	rest := s.idxBlocks
	levels := 0
	s.topPos = -1
	for len(rest) > 0 {
		// this level must cover exactly `children`
		ci := 0
		var levelBlocks []int
		for len(rest) > 0 && ci < len(children) {
			bi := rest[0]
			rest = rest[1:]
			levelBlocks = append(levelBlocks, bi)
			for _, e := range in.Blocks[bi].Idx {
				if ci >= len(children) {
					if check {
						d.fail("index.entries", "%c index level %d: block at %d has more entries than child blocks (%d)", s.typ, levels+1, in.Blocks[bi].Off, len(children))
					}
					return levels + 1
				}
				child := &in.Blocks[children[ci]]
				if check {
					if int(e.Pos) != child.Off {
						d.fail("index.entries", "%c index level %d entry %d: position %d, want %d (the next child block; child type %c)", s.typ, levels+1, ci, e.Pos, child.Off, child.Type)
						return levels + 1
					}
					if e.Key != child.LastKey {
						d.fail("index.entries", "%c index level %d entry %d: key %q is not the last key %q of the child block at %d", s.typ, levels+1, ci, e.Key, child.LastKey, child.Off)
						return levels + 1
					}
				}
				ci++
			}
		}
		if ci < len(children) {
			if check {
				d.fail("index.complete", "%c index level %d covers %d of %d child blocks (first uncovered child at %d)", s.typ, levels+1, ci, len(children), in.Blocks[children[ci]].Off)
			}
			return levels + 1
		}
		levels++
		s.topPos = in.Blocks[levelBlocks[0]].Off
		children = levelBlocks
	}
	return levels
}

// checkSections validates section order, footer positions, index levels, object index.
func (d *decoder) checkSections(opt Options) {
	in := d.info
	secs, ok := d.sections()
	if !ok {
		return
	}
	for _, s := range secs {
		lv := d.levels(s, true)
		s.levels = lv
		first := -1
		if len(s.blocks) > 0 {
			first = in.Blocks[s.blocks[0]].Off
		}
		idxPos := uint64(0)
		if lv > 0 && s.topPos >= 0 {
			idxPos = uint64(s.topPos)
		}
		switch s.typ {
		case 'r':
			in.RefBlocks, in.RefIndexBlocks, in.RefIndexLevels = len(s.blocks), len(s.idxBlocks), lv
			if len(s.blocks) > 0 && first != 0 {
				d.fail("sections.order", "ref section starts at %d", first)
			}
			if d.nf == 0 && in.RefIndexPos != idxPos {
				d.fail("footer.positions", "ref_index_position %d, top-level ref index starts at %d", in.RefIndexPos, idxPos)
			}
		case 'o':
			in.ObjBlocks, in.ObjIndexBlocks, in.ObjIndexLevels = len(s.blocks), len(s.idxBlocks), lv
			want := uint64(0)
			if first >= 0 {
				want = uint64(first)
			}
			if in.ObjPos != want {
				d.fail("footer.positions", "obj_position %d, obj section starts at %d", in.ObjPos, want)
			}
			if d.nf == 0 && in.ObjIndexPos != idxPos {
				d.fail("footer.positions", "obj_index_position %d, top-level obj index starts at %d", in.ObjIndexPos, idxPos)
			}
		case 'g':
			in.LogBlocks, in.LogIndexBlocks, in.LogIndexLevels = len(s.blocks), len(s.idxBlocks), lv
			want := uint64(0)
			if first >= 0 {
				want = uint64(first)
			}
			if in.LogPos != want {
				d.fail("footer.positions", "log_position %d, log section starts at %d", in.LogPos, want)
			}
			if d.nf == 0 && in.LogIndexPos != idxPos {
				d.fail("footer.positions", "log_index_position %d, top-level log index starts at %d", in.LogIndexPos, idxPos)
			}
		}
	}
	// index blocks directly after the header with no section are impossible (sections()
	// attaches i blocks only to a non-empty section), so stray leading 'i' blocks were
	// reported as out of order above.
	d.checkObjIndex(secs)
}

func (d *decoder) checkObjIndex(secs []*section) {
	in := d.info
	if len(in.Objs) == 0 {
		if in.ObjIDLen != 0 && in.ObjBlocks == 0 {
			// id len without section: harmless but odd
		}
		return
	}
	if in.ObjIDLen < 1 || in.ObjIDLen > in.HashSize {
		d.fail("obj.idlen", "object id prefix length %d", in.ObjIDLen)
		return
	}
	// what the ref blocks really contain
	want := map[string][]uint64{} // prefix -> ascending positions
	full := map[string]map[string]bool{}
	for _, bi := range secs[0].blocks {
		b := &in.Blocks[bi]
		seen := map[string]bool{}
		for oid := range b.oids {
			p := oid[:in.ObjIDLen]
			if full[p] == nil {
				full[p] = map[string]bool{}
			}
			full[p][oid] = true
			if !seen[p] {
				seen[p] = true
				want[p] = append(want[p], uint64(b.Off))
			}
		}
	}
	for p, oids := range full {
		if len(oids) > 1 {
			d.fail("obj.idlen", "object id prefix length %d does not distinguish %d object ids sharing prefix %x", in.ObjIDLen, len(oids), p)
			break
		}
	}
	got := map[string]bool{}
	for _, e := range in.Objs {
		if len(e.Prefix) != in.ObjIDLen {
			d.fail("obj.prefix", "obj record key %x has length %d, footer says %d", e.Prefix, len(e.Prefix), in.ObjIDLen)
			continue
		}
		got[e.Prefix] = true
		w, ok := want[e.Prefix]
		if !ok {
			d.fail("obj.entries", "obj record %x names an object id that no ref block contains", e.Prefix)
			continue
		}
		if len(e.Positions) == 0 {
			continue // positions omitted: reader must scan
		}
		sort.Slice(w, func(i, j int) bool { return w[i] < w[j] })
		if len(w) != len(e.Positions) {
			d.fail("obj.positions", "obj record %x lists %d ref blocks %v, the id occurs in %d blocks %v", e.Prefix, len(e.Positions), e.Positions, len(w), w)
			continue
		}
		for i := range w {
			if w[i] != e.Positions[i] {
				d.fail("obj.positions", "obj record %x lists blocks %v, the id occurs in %v", e.Prefix, e.Positions, w)
				break
			}
		}
	}
	for p := range want {
		if !got[p] {
			d.fail("obj.entries", "object id %x occurs in ref blocks but has no obj record", p)
			break
		}
	}
}

// CompareRecords checks decoded records against the expected source records.
func CompareRecords(in *Info, refs []gen.Ref, logs []gen.Log) []Finding {
	want := gen.Dump(refs, logs)
	got := gen.Dump(in.Refs, in.Logs)
	if want != got {
		return []Finding{{"records.equal", gen.DiffLines(want, got)}}
	}
	return nil
}
