// Package rep collects what a shard of a check observed and writes it out for the
// driver to merge.
package rep

import (
	"encoding/binary"
	"encoding/json"
	"fmt"
	"hash/fnv"
	"os"
	"path/filepath"
	"sort"
	"strings"
)

type Violation struct {
	Props []string    `json:"props"`
	Sig   string      `json:"sig"`
	Msg   string      `json:"msg"`
	Case  interface{} `json:"case,omitempty"`
	Count int         `json:"count"`
}

type Report struct {
	Prop        string                     `json:"prop"`
	Shard       int                        `json:"shard"`
	Evaluations int                        `json:"evaluations"`
	Inconclusive int                       `json:"inconclusive"`
	OutOfDomain int                        `json:"out_of_domain"`
	Counters    map[string]int             `json:"counters"`
	Sets        map[string]map[string]bool `json:"-"`
	SetsOut     map[string][]string        `json:"sets"`
	Samples     []interface{}              `json:"samples"`
	Violations  []*Violation               `json:"violations"`
	Notes       []string                   `json:"notes"`
	Rule        string                     `json:"rule"`
	Assumptions []string                   `json:"assumptions"`

	nontrivial map[uint64]struct{}
	vioBySig   map[string]*Violation
	notes      map[string]bool
	// Only restricts violations to these property ids (others are kept as notes).
	MaxSamples int
}

func New(prop string, shard int) *Report {
	return &Report{Prop: prop, Shard: shard, Counters: map[string]int{}, Sets: map[string]map[string]bool{},
		nontrivial: map[uint64]struct{}{}, vioBySig: map[string]*Violation{}, notes: map[string]bool{}, MaxSamples: 4}
}

func Hash(parts ...string) uint64 {
	h := fnv.New64a()
	for _, p := range parts {
		h.Write([]byte(p))
		h.Write([]byte{0})
	}
	return h.Sum64()
}

func HashBytes(b []byte) uint64 {
	h := fnv.New64a()
	h.Write(b)
	return h.Sum64()
}

// Nontrivial records a distinct non-trivial case by its canonical hash.
func (r *Report) Nontrivial(h uint64) { r.nontrivial[h] = struct{}{} }
func (r *Report) NontrivialCount() int { return len(r.nontrivial) }

func (r *Report) Count(k string, n int) { r.Counters[k] += n }

func (r *Report) Max(k string, n int) {
	if n > r.Counters[k] {
		r.Counters[k] = n
	}
}

func (r *Report) SetAdd(set, v string) {
	m := r.Sets[set]
	if m == nil {
		m = map[string]bool{}
		r.Sets[set] = m
	}
	if len(m) < 200000 {
		m[v] = true
	}
}

func (r *Report) Sample(s interface{}) {
	if len(r.Samples) < r.MaxSamples {
		r.Samples = append(r.Samples, s)
	}
}

func (r *Report) Note(format string, a ...interface{}) {
	s := fmt.Sprintf(format, a...)
	if !r.notes[s] && len(r.notes) < 40 {
		r.notes[s] = true
		r.Notes = append(r.Notes, s)
	}
}

// Violate records a violation. sig identifies the failure class (no line numbers, no
// random names); the first case per signature is kept as the replay artefact.
func (r *Report) Violate(props []string, sig, msg string, c interface{}) {
	key := strings.Join(props, ",") + "|" + sig
	if v := r.vioBySig[key]; v != nil {
		v.Count++
		return
	}
	if len(msg) > 4000 {
		msg = msg[:4000] + "..."
	}
	v := &Violation{Props: props, Sig: sig, Msg: msg, Case: c, Count: 1}
	r.vioBySig[key] = v
	r.Violations = append(r.Violations, v)
}

func (r *Report) HasViolations() bool { return len(r.Violations) > 0 }

// Write stores report.json and hashes.bin into dir.
func (r *Report) Write(dir string) error {
	r.SetsOut = map[string][]string{}
	for k, m := range r.Sets {
		var l []string
		for v := range m {
			l = append(l, v)
		}
		sort.Strings(l)
		r.SetsOut[k] = l
	}
	b, err := json.Marshal(r)
	if err != nil {
		return err
	}
	if err := os.WriteFile(filepath.Join(dir, fmt.Sprintf("report-%s-%d.json", r.Prop, r.Shard)), b, 0644); err != nil {
		return err
	}
	hb := make([]byte, 0, 8*len(r.nontrivial))
	var tmp [8]byte
	for h := range r.nontrivial {
		binary.LittleEndian.PutUint64(tmp[:], h)
		hb = append(hb, tmp[:]...)
	}
	return os.WriteFile(filepath.Join(dir, fmt.Sprintf("hashes-%s-%d.bin", r.Prop, r.Shard)), hb, 0644)
}
