package eng

import (
	"fmt"
	"os"
	"path/filepath"
	"sort"
	"strings"

	"github.com/google/reftable"
	"github.com/google/reftable/verifvfs/vos"
	"verif/harness/gen"
	"verif/harness/rtx"
	"verif/harness/stx"
)

// Call is one step of a process script.
type Call struct {
	Kind   string // open add addmulti addempty addbad compactall compactexpiry autocompact compactrange clean close reopen read fresh
	Txns   []*gen.Txn
	Expiry *reftable.LogExpirationConfig
	First, Last int // compactrange
}

var errAbandoned = fmt.Errorf("harness: addition abandoned on purpose")

// CompactRange is set when the export wrapper for compactRange is available.
var CompactRange func(st *reftable.Stack, first, last int) (bool, error)

func (c Call) String() string {
	s := c.Kind
	if len(c.Txns) > 0 {
		s += " " + txnIDs(c.Txns)
	}
	if c.Expiry != nil {
		s += fmt.Sprintf(" {T=%d min=%d max=%d}", c.Expiry.Time, c.Expiry.MinUpdateIndex, c.Expiry.MaxUpdateIndex)
	}
	if c.Kind == "compactrange" {
		s += fmt.Sprintf("[%d,%d]", c.First, c.Last)
	}
	return s
}

// Actor is the per-process state of the script runner.
type Actor struct {
	ID      int
	W       *World
	St      *reftable.Stack
	Script  []Call
	Results []string
	// M-view: index of the newest version this handle is known to have held
	lastVersion int
	// version created by this handle's own last successful Add: its view can never be older
	minVersion int
	CallsDone   int
}

// Body returns the goroutine body for the scheduler.
func (a *Actor) Body() func(p *vos.Proc) {
	return func(p *vos.Proc) {
		for _, c := range a.Script {
			a.run(p, c)
			a.CallsDone++
		}
	}
}

func (a *Actor) run(p *vos.Proc, c Call) {
	w := a.W
	ci := &CallInfo{Kind: c.Kind, Txns: c.Txns, Expiry: c.Expiry}
	vos.Yield("api", c.Kind) // scheduling point at the call boundary
	w.Begin(p, ci)
	hist := -1
	if c.Kind == "add" || c.Kind == "addmulti" || c.Kind == "addempty" || c.Kind == "addbad" || c.Kind == "addmultibad" || c.Kind == "addmultistale" || c.Kind == "addmultiabandon" {
		w.Hist = append(w.Hist, HistEvent{Proc: p.ID, Kind: "add", TxnIDs: idsOf(c.Txns), Call: w.S.Step, Return: -1})
		hist = len(w.Hist) - 1
	}
	if c.Kind == "fresh" {
		w.Hist = append(w.Hist, HistEvent{Proc: p.ID, Kind: "read", Call: w.S.Step, Return: -1})
		hist = len(w.Hist) - 1
	}
	var err error
	faultBefore := p.FaultFired != nil
	needStack := c.Kind != "open" && c.Kind != "fresh" && c.Kind != "reopen"
	if needStack && a.St == nil {
		a.Results = append(a.Results, c.String()+" -> skipped (no handle)")
		w.End(p, ci)
		return
	}
	var out string
	switch c.Kind {
	case "open", "reopen":
		if a.St != nil {
			err = rtx.Safe(func() error { a.St.Close(); return nil })
			a.St = nil
		}
		if err == nil {
			a.St, err = stx.Open(w.Dir, w.Cfg)
			if err != nil {
				a.St = nil
			} else {
				a.lastVersion = 0
				a.minVersion = 0
			}
		}
	case "add", "addbad":
		t := c.Txns[0]
		err = rtx.Safe(func() error {
			return a.St.Add(func(wr *reftable.Writer) error {
				ui := a.St.NextUpdateIndex()
				ci.UIs = []uint64{ui}
				return stx.WriteTxn(wr, t, ui)
			})
		})
	case "addempty":
		err = rtx.Safe(func() error {
			return a.St.Add(func(wr *reftable.Writer) error { return nil })
		})
	case "addmulti", "addmultibad", "addmultistale", "addmultiabandon":
		// addmultistale: every table is written with the update index the stack had when
		// the Addition was opened, so the second one does not lie above the first and must
		// be refused (ranges in tables.list are strictly increasing).
		// addmultibad: the last table is rejected (malformed name), the Addition is
		// closed; addmultiabandon: all tables are added, then the Addition is closed
		// without Commit. Neither may leave any trace.
		err = rtx.Safe(func() error {
			add, err := a.St.NewAddition()
			if err != nil {
				return err
			}
			defer add.Close()
			ui := a.St.NextUpdateIndex()
			for _, t := range c.Txns {
				t := t
				u := ui
				if err := add.Add(func(wr *reftable.Writer) error { return stx.WriteTxn(wr, t, u) }); err != nil {
					return err
				}
				if c.Kind == "addmulti" {
					ci.UIs = append(ci.UIs, u)
				}
				if c.Kind != "addmultistale" {
					ui++
				}
			}
			if c.Kind == "addmultiabandon" {
				return errAbandoned
			}
			return add.Commit()
		})
	case "compactall":
		err = rtx.Safe(func() error { return a.St.CompactAll(nil) })
	case "compactexpiry":
		err = rtx.Safe(func() error { return a.St.CompactAll(c.Expiry) })
	case "autocompact":
		err = rtx.Safe(func() error { return a.St.AutoCompact() })
	case "compactrange":
		if CompactRange != nil {
			err = rtx.Safe(func() error { _, e := CompactRange(a.St, c.First, c.Last); return e })
		}
	case "clean":
		err = rtx.Safe(func() error { return a.St.Clean() })
	case "close":
		err = rtx.Safe(func() error { a.St.Close(); return nil })
		a.St = nil
	case "read":
		a.checkView(p, "explicit read")
	case "fresh":
		out, err = a.freshRead()
	}
	res := "ok"
	if err != nil {
		res = err.Error()
		if len(res) > 200 {
			res = res[:200]
		}
	}
	a.Results = append(a.Results, c.String()+" -> "+res)
	if hist >= 0 {
		h := &w.Hist[hist]
		h.Return = w.S.Step
		h.Ok = err == nil
		h.Output = out
		if err != nil {
			h.Err = res
		}
	}
	if w.S.ClockStep > 0 && err != nil && err != reftable.ErrLockFailure {
		if _, isPanic := err.(*rtx.PanicError); !isPanic {
			// slow-clock scenarios: the code's own deadline (reload gives up after 2.5 s)
			// may expire; the call then fails honestly, possibly after its commit. Like a
			// timed-out request it is indeterminate; M-view/M-own/M-dir stay in force.
			a.Results[len(a.Results)-1] += " [deadline scenario: indeterminate]"
			if hist >= 0 {
				w.Hist[hist].Indeterminate = true
			}
			if c.Kind == "open" || c.Kind == "reopen" {
				a.St = nil
			}
			w.End(p, ci)
			if a.St != nil && c.Kind != "read" && c.Kind != "fresh" {
				a.checkView(p, "after "+c.Kind)
			}
			return
		}
	}
	if !faultBefore && p.FaultFired != nil {
		// an injected I/O error hit this call: any error is a legitimate result (C04's
		// result rules speak about runs without I/O faults); what stays in force is
		// that the call did not panic, released what it took (M-own at End), left the
		// handle with a consistent view (M-view) and the directory well-formed (M-dir)
		a.Results[len(a.Results)-1] += fmt.Sprintf(" [injected fault at %s]", p.FaultFired.String())
		w.FaultedCalls++
		if pe, ok := err.(*rtx.PanicError); ok {
			w.violate([]string{"C16"}, "panic-after-io-fault-in-"+c.Kind+"|"+topFrame(pe.Stack), "p%d %s panicked after an injected I/O error at %s: %v\n%s", p.ID, c.String(), p.FaultFired.String(), pe.Val, trimStack(pe.Stack))
		} else if err == nil && !ci.Applied && (c.Kind == "add" || c.Kind == "addmulti") {
			w.violate([]string{"C04"}, "add-acked-but-not-committed|after-io-fault", "p%d %s returned nil after an injected I/O error at %s but no commit of its transaction was observed", p.ID, c.String(), p.FaultFired.String())
		}
		if err != nil {
			w.FaultErrors++
			if hist >= 0 {
				w.Hist[hist].Indeterminate = true
			}
		}
		if c.Kind == "open" || c.Kind == "reopen" {
			if err != nil && a.St != nil {
				a.St = nil
			}
		}
	} else {
		a.judge(p, c, ci, err)
	}
	if err == nil && ci.Applied && (c.Kind == "add" || c.Kind == "addmulti") {
		a.minVersion = ci.VersionIdx
	}
	w.End(p, ci)
	// M-view: after every completed call of a handle its view must be one committed version
	if a.St != nil && c.Kind != "read" && c.Kind != "fresh" {
		a.checkView(p, "after "+c.Kind)
	}
}

func idsOf(ts []*gen.Txn) []int {
	var out []int
	for _, t := range ts {
		out = append(out, t.ID)
	}
	return out
}

// judge applies the result rules of C04/C16 to a finished call.
func (a *Actor) judge(p *vos.Proc, c Call, ci *CallInfo, err error) {
	w := a.W
	if pe, ok := err.(*rtx.PanicError); ok {
		props := []string{"C04"}
		switch c.Kind {
		case "close", "clean":
			props = []string{"C16"}
		case "compactexpiry":
			props = []string{"C13", "C04"}
		case "open", "reopen":
			props = []string{"C05", "C10"}
		}
		w.violate(props, "panic-in-"+c.Kind+"|"+topFrame(pe.Stack), "p%d %s panicked: %v\n%s", p.ID, c.String(), pe.Val, trimStack(pe.Stack))
		return
	}
	if err == reftable.ErrLockFailure && w.SoloRule && len(w.Crashed) > 0 {
		// this process runs alone after a crash: a writer may only be refused while a
		// dead process's lock file exists
		if _, serr := os.Stat(filepath.Join(w.Dir, "tables.list.lock")); serr != nil {
			w.violate([]string{"C06"}, "writer-refused-without-leftover-lock|"+c.Kind, "p%d %s failed with ErrLockFailure after the crash of another process although no tables.list.lock exists (dir %v)", p.ID, c.String(), stx.DirNames(w.Dir))
		}
	}
	switch c.Kind {
	case "add", "addmulti":
		switch {
		case err == nil && !ci.Applied:
			w.violate([]string{"C04"}, "add-acked-but-not-committed", "p%d %s returned nil but no commit of its transaction was observed", p.ID, c.String())
		case err != nil && ci.Applied:
			w.violate([]string{"C04"}, "add-failed-after-commit|"+errCls(err), "p%d %s returned %q although its transaction was committed (list %v)", p.ID, c.String(), err, mustNames(w.Dir))
		case err != nil && err != reftable.ErrLockFailure:
			w.violate([]string{"C04"}, "add-failed-with-unexpected-error|"+errCls(err), "p%d %s failed with %q (only ErrLockFailure / content rejection are allowed without I/O faults)", p.ID, c.String(), err)
		}
	case "addmultibad", "addmultistale", "addmultiabandon":
		if err == nil {
			w.violate([]string{"C12", "C04"}, "illegal-or-abandoned-addition-committed", "p%d %s returned nil", p.ID, c.String())
		}
	case "addbad":
		if err == nil {
			w.violate([]string{"C12", "C04"}, "illegal-transaction-accepted", "p%d %s (malformed ref name) returned nil", p.ID, c.String())
		} else if ci.Applied {
			w.violate([]string{"C04"}, "rejected-transaction-visible", "p%d %s failed with %q but its content was committed", p.ID, c.String(), err)
		}
	case "addempty":
		if err != nil && err != reftable.ErrLockFailure {
			w.violate([]string{"C04"}, "empty-add-failed|"+errCls(err), "p%d Add of an empty transaction failed with %q", p.ID, err)
		}
	case "open", "reopen":
		if err != nil {
			w.violate([]string{"C05", "C10"}, "open-failed|"+errCls(err), "p%d NewStack failed: %v (list %v, dir %v)", p.ID, err, mustNames(w.Dir), stx.DirNames(w.Dir))
		}
	case "compactall", "autocompact", "compactexpiry", "compactrange":
		if err != nil && err != reftable.ErrLockFailure {
			w.violate([]string{"C04"}, c.Kind+"-failed|"+errCls(err), "p%d %s failed with %q (without I/O faults compaction either succeeds or gives up on contention)", p.ID, c.String(), err)
		}
	case "clean":
		// Clean racing with another process's post-compaction cleanup may legitimately
		// fail (the file it wanted to inspect vanished); the property only demands
		// success when the process runs alone (e.g. after crashes of others).
		if err != nil && err != reftable.ErrLockFailure && w.SoloRule {
			w.violate([]string{"C16"}, "clean-failed|"+errCls(err), "p%d Clean failed with %q although no other process is running", p.ID, err)
		}
	}
}

func topFrame(stack string) string {
	for _, line := range strings.Split(stack, "\n") {
		if strings.HasPrefix(line, "github.com/google/reftable.") && !strings.Contains(line, "verifvfs") {
			s := strings.TrimPrefix(line, "github.com/google/reftable.")
			if i := strings.LastIndex(s, "("); i > 0 {
				s = s[:i]
			}
			return s
		}
	}
	return "?"
}

func trimStack(s string) string {
	if len(s) > 1800 {
		return s[:1800]
	}
	return s
}

// checkView is M-view (C10): the handle's view must be exactly one recorded version,
// not older than the one it held before, and every read must succeed.
func (a *Actor) checkView(p *vos.Proc, when string) {
	w := a.W
	if a.St == nil {
		return
	}
	if w.S != nil && w.S.HookReads && !w.inViewMon {
		// fault-injection runs hook the reads of table files: the monitor's own reads are
		// not operations of the process and must not take the injected fault
		w.inViewMon = true
		defer func() { w.inViewMon = false }()
		w.S.InMonitor(func() { a.checkView(p, when) })
		return
	}
	var names []string
	var dump string
	err := rtx.Safe(func() error {
		names = stx.Names(a.St)
		refs, logs, err := stx.View(a.St)
		if err != nil {
			return err
		}
		dump = gen.Dump(refs, logs)
		// point lookups through the same view
		m := a.St.Merged()
		if len(refs) > 0 {
			r0 := refs[len(refs)/2]
			rr, err := reftable.ReadRef(m, r0.Name)
			if err != nil {
				return fmt.Errorf("ReadRef: %v", err)
			}
			if rr == nil || rr.UpdateIndex != r0.UI {
				return fmt.Errorf("ReadRef(%q) disagrees with the scan", r0.Name)
			}
			if r0.Value != nil {
				it, err := m.RefsFor(r0.Value)
				if err != nil {
					return fmt.Errorf("RefsFor: %v", err)
				}
				rs, err := rtx.DrainRefs(it, 0)
				if err != nil {
					return fmt.Errorf("RefsFor: %v", err)
				}
				found := false
				for _, x := range rs {
					if x.Name == r0.Name {
						found = true
					}
				}
				if !found {
					return fmt.Errorf("RefsFor(%x) misses %q", r0.Value, r0.Name)
				}
			}
		}
		return nil
	})
	w.ViewChecks++
	if err != nil {
		sig := "view-read-failed|" + errCls(err)
		if rtx.IsPanic(err) {
			sig = "view-read-panic|" + topFrame(err.(*rtx.PanicError).Stack)
		}
		w.violate([]string{"C10"}, sig, "p%d %s: reading through the handle failed: %v (handle %v, list %v)", p.ID, when, err, names, mustNames(w.Dir))
		return
	}
	// which version is it?
	key := strings.Join(names, " ")
	found := -1
	for i := len(w.Versions) - 1; i >= 0; i-- {
		if strings.Join(w.Versions[i].Names, " ") == key {
			found = i
			break
		}
	}
	if found < 0 {
		w.violate([]string{"C10"}, "view-is-no-committed-version", "p%d %s: the handle holds tables %v which is not any committed version of tables.list (%d versions)", p.ID, when, names, len(w.Versions))
		return
	}
	v := w.Versions[found]
	if v.Readable && v.Dump != dump {
		w.violate([]string{"C10"}, "view-differs-from-its-version", "p%d %s: handle at version %d (%v) reads differently from a fresh reader of that version: %s", p.ID, when, found, names, gen.DiffLines(v.Dump, dump))
		return
	}
	if found < a.minVersion {
		w.violate([]string{"C10", "C04"}, "view-older-than-own-commit", "p%d %s: the handle's Add was committed as version %d but its view is still version %d (%v): it does not see its own write", p.ID, when, a.minVersion, found, names)
		return
	}
	if found < a.lastVersion {
		w.violate([]string{"C10"}, "view-went-backwards", "p%d %s: handle moved from version %d back to %d", p.ID, when, a.lastVersion, found)
		return
	}
	a.lastVersion = found
	w.ViewVersions[found] = true
	if found < len(w.Versions)-1 {
		w.StaleViews++
	}
}

// freshRead opens a new handle, reads journal + refs and checks ref/log agreement.
func (a *Actor) freshRead() (string, error) {
	w := a.W
	st, err := stx.Open(w.Dir, w.Cfg)
	if err != nil {
		return "", err
	}
	defer stx.SafeClose(st)
	refs, logs, err := stx.View(st)
	if err != nil {
		return "", err
	}
	return JournalOf(refs, logs), nil
}

// JournalOf reconstructs the committed transaction order from the reflog of the
// journal ref (one entry per transaction, ordered by update index).
func JournalOf(refs []gen.Ref, logs []gen.Log) string {
	type e struct {
		ui uint64
		id int
	}
	var es []e
	for _, l := range logs {
		if l.Name != gen.JournalRef || l.Del {
			continue
		}
		if id, ok := gen.TxnIDOfMsg(l.Msg); ok {
			es = append(es, e{l.UI, id})
		}
	}
	sort.Slice(es, func(i, j int) bool { return es[i].ui < es[j].ui })
	var s []string
	for _, x := range es {
		s = append(s, fmt.Sprint(x.id))
	}
	return strings.Join(s, ",")
}
