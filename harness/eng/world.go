// Package eng is engine A: virtual processes (goroutines under the token-passing
// scheduler of verifvfs/vos) running scripts of real Stack calls on one real directory,
// with monitors attached to every hooked filesystem operation.
package eng

import (
	"bytes"
	"fmt"
	"os"
	"path/filepath"
	"sort"
	"strings"
	"syscall"

	"github.com/google/reftable"
	"github.com/google/reftable/verifvfs/vos"
	"verif/harness/dec"
	"verif/harness/gen"
	"verif/harness/rtx"
	"verif/harness/stx"
)

// Viol is one monitor violation.
type Viol struct {
	Props []string
	Sig   string
	Msg   string
	Step  int
}

// Version is one committed version of tables.list observed by M-commit.
type Version struct {
	Names    []string
	Dump     string
	Readable bool
	Step     int
	By       int    // committing process
	What     string // "init", "add t5", "compaction", ...
}

// CallInfo describes the API call a process is executing.
type CallInfo struct {
	Kind    string // open add addmulti addempty addbad compactall compactexpiry autocompact clean close reopen read fresh
	Txns    []*gen.Txn
	UIs     []uint64 // update index used for each txn (set by the write callback)
	Expiry  *reftable.LogExpirationConfig
	Start   int
	Applied bool // M-commit saw this call's transaction(s) being committed
	AppliedTimes int
	VersionIdx   int // index of the list version created by that commit
}

// HistEvent is a completed (or open) client-boundary event for the offline checker.
type HistEvent struct {
	Proc   int
	Kind   string // add | read
	TxnIDs []int
	Call   int
	Return int    // -1 = still open (crashed)
	Ok     bool   // add: returned nil
	Err    string
	Output string // read: journal as "1,2,3"
	// Indeterminate: the call was hit by an injected I/O error and failed; like a
	// timed-out request it may or may not have taken effect (e.g. the error came from
	// the reload after the commit rename)
	Indeterminate bool
}

type lockInfo struct {
	owner int
	ino   uint64
	file  *vos.File
}

// World holds the monitors' state for one scenario.
type World struct {
	// calls hit by an injected I/O fault / of those, calls that returned an error
	FaultedCalls, FaultErrors int
	inViewMon                 bool
	Dir   string
	Cfg   reftable.Config
	GCfg  gen.Cfg
	S     *vos.Sched
	Viols []Viol

	Model    *gen.Model // model of the current committed version (tombstones included)
	Versions []Version
	applied  map[int]int // txn id -> times applied

	calls map[int]*CallInfo // per process: call in progress
	Hist  []HistEvent

	locks     map[string]*lockInfo
	lockFiles map[lockKey][]byte
	// M-own: path -> owner for files a process is responsible for
	owned map[string]int

	tableOK map[string]bool // decoder verdict cache by "name/size/ino"

	// coverage
	Sites        map[string]bool
	DirStates    map[string]bool
	LockCreates  int
	LockContend  int
	LockRemoves  int
	Contention   map[string]bool
	Commits      int
	OpsChecked   int
	FreshOpens   int
	TablesDecoded int
	Crashed      map[int]bool
	Excused      map[string]bool // files whose unlink failed with an injected error
	ViewChecks   int
	HistOps      int
	LinUnknown   bool
	DirChecks    int
	StaleViews   int
	ViewVersions map[int]bool
	Overlap      bool // two API calls of different processes overlapped
	active       map[int]bool
	CheckDirEvery bool
	// SoloRule: after a crash the remaining processes run one after the other
	SoloRule bool
	// Props the caller is interested in (monitors always run; this only limits cost)
	Want map[string]bool
}

func NewWorld(dir string, gcfg gen.Cfg) *World {
	w := &World{Dir: dir, GCfg: gcfg, Cfg: rtx.Config(gcfg), Model: gen.NewModel(gcfg.HashSize(), gcfg.ExactLog),
		applied: map[int]int{}, calls: map[int]*CallInfo{}, locks: map[string]*lockInfo{}, owned: map[string]int{},
		lockFiles: map[lockKey][]byte{},
		tableOK: map[string]bool{}, Sites: map[string]bool{}, DirStates: map[string]bool{}, Contention: map[string]bool{},
		ViewVersions: map[int]bool{},
		Crashed: map[int]bool{}, Excused: map[string]bool{}, active: map[int]bool{}, Want: map[string]bool{}}
	return w
}

func (w *World) violate(props []string, sig, format string, a ...interface{}) {
	step := 0
	if w.S != nil {
		step = w.S.Step
	}
	for _, v := range w.Viols {
		if v.Sig == sig && strings.Join(v.Props, ",") == strings.Join(props, ",") {
			return
		}
	}
	w.Viols = append(w.Viols, Viol{Props: props, Sig: sig, Msg: fmt.Sprintf(format, a...), Step: step})
}

func inoOf(path string) uint64 {
	fi, err := os.Lstat(path)
	if err != nil {
		return 0
	}
	if st, ok := fi.Sys().(*syscall.Stat_t); ok {
		return st.Ino
	}
	return 0
}

func base(p string) string { return filepath.Base(p) }

func (w *World) inDir(p string) bool {
	return filepath.Dir(p) == w.Dir
}

// ---- the hooks -----------------------------------------------------------------

// PreOp runs before the operation is performed (token held by the process).
func (w *World) PreOp(s *vos.Sched, op *vos.Op) {
	cls := vos.PathClass(op.Path)
	switch op.Kind {
	case "remove", "rename":
		if strings.HasSuffix(cls, "lock") && w.inDir(op.Path) {
			// M-lock: who removes/renames this lock file?
			li := w.locks[op.Path]
			ino := inoOf(op.Path)
			if li != nil && ino != 0 && li.owner != op.Proc {
				w.violate([]string{"C08"}, "lock-"+op.Kind+"d-by-non-owner|"+cls, "p%d %ss %s created by p%d (%s)", op.Proc, op.Kind, base(op.Path), li.owner, op.String())
			}
			if li != nil && ino != 0 && li.ino != 0 && li.ino != ino {
				w.violate([]string{"C08"}, "lock-inode-changed|"+cls, "%s: inode %d, the holder p%d created inode %d", op.String(), ino, li.owner, li.ino)
			}
			if li == nil && ino != 0 && !w.anyCrashed() {
				w.violate([]string{"C08"}, "lock-"+op.Kind+"d-without-holder|"+cls, "p%d %ss %s which no live process created (%s)", op.Proc, op.Kind, base(op.Path), op.String())
			}
		}
	}
}

func (w *World) anyCrashed() bool { return len(w.Crashed) > 0 }

// PostOp runs after every hooked operation (token still held by the process).
func (w *World) PostOp(s *vos.Sched, op *vos.Op) {
	w.OpsChecked++
	cls := vos.PathClass(op.Path)
	w.Sites[op.Site+"/"+op.Kind+"/"+cls] = true
	ok := op.Err == ""
	if !w.inDir(op.Path) && op.Kind != "readdir" {
		return
	}
	// other ways of bringing a lock file into existence count as acquisitions too
	if ok && (op.Kind == "link" || op.Kind == "symlink" || op.Kind == "rename") && strings.HasSuffix(vos.PathClass(op.Dst), "lock") && w.inDir(op.Dst) {
		dcls := vos.PathClass(op.Dst)
		w.LockCreates++
		if li := w.locks[op.Dst]; li != nil && li.owner != op.Proc {
			w.violate([]string{"C08"}, "lock-acquired-while-held|"+dcls, "p%d put %s in place (%s) while p%d holds it", op.Proc, base(op.Dst), op.Kind, li.owner)
		}
		w.locks[op.Dst] = &lockInfo{owner: op.Proc, ino: inoOf(op.Dst)}
		w.owned[op.Dst] = op.Proc
	}
	kind := op.Kind
	if kind == "writefile" && strings.HasSuffix(cls, "lock") && ok {
		if _, held := w.locks[op.Path]; !held || w.locks[op.Path].owner != op.Proc {
			kind = "create" // WriteFile created (or clobbered) the lock file
		}
	}
	switch kind {
	case "create", "tempfile":
		if strings.HasSuffix(cls, "lock") {
			if ok {
				w.LockCreates++
				if li := w.locks[op.Path]; li != nil {
					w.violate([]string{"C08"}, "lock-acquired-while-held|"+cls, "p%d created %s while p%d holds it (%s, flags %#x)", op.Proc, base(op.Path), li.owner, op.String(), op.Flags)
				}
				w.locks[op.Path] = &lockInfo{owner: op.Proc, ino: inoOf(op.Path)}
				w.lockFiles[lockKey{op.Proc, op.Path}] = []byte{}
				w.owned[op.Path] = op.Proc
			} else if strings.Contains(op.Err, "exists") {
				w.LockContend++
				call := ""
				if ci := w.calls[op.Proc]; ci != nil {
					call = ci.Kind
				}
				w.Contention[cls+"/"+call] = true
			}
		} else if ok {
			w.owned[op.Path] = op.Proc
			if cls == "list" {
				w.listTouched(op, "created in place")
			}
		}
	case "write", "writefile", "writeat", "truncate":
		if cls == "list" && ok {
			w.listTouched(op, "written in place")
		}
		if strings.HasSuffix(cls, "lock") && op.File != nil {
			w.lockFiles[lockKey{op.Proc, op.Path}] = append([]byte(nil), op.File.Written...)
		}
	case "remove":
		if !ok && op.Fault != nil {
			// an unlink that failed with an injected error legitimately leaves the
			// file behind: nobody owes its removal any more
			delete(w.owned, op.Path)
			w.Excused[op.Path] = true
		}
		if ok {
			if strings.HasSuffix(cls, "lock") {
				w.LockRemoves++
				delete(w.locks, op.Path)
			}
			delete(w.owned, op.Path)
			if cls == "ref" {
				w.checkRemovedTable(op, op.Path)
			}
			if cls == "list" {
				w.violate([]string{"C05", "C04"}, "list-removed", "%s removed tables.list", op.String())
			}
		}
	case "rename":
		if ok {
			dcls := vos.PathClass(op.Dst)
			if strings.HasSuffix(cls, "lock") {
				delete(w.locks, op.Path)
			}
			owner, had := w.owned[op.Path]
			delete(w.owned, op.Path)
			if cls == "ref" {
				w.checkRemovedTable(op, op.Path)
			}
			switch dcls {
			case "list":
				w.onCommit(op)
			case "ref":
				if !had {
					owner = op.Proc
				}
				w.owned[op.Dst] = owner // responsible until it is listed
			default:
				w.owned[op.Dst] = op.Proc
			}
		}
	}
	if op.Kind == "create" || op.Kind == "tempfile" || op.Kind == "remove" || op.Kind == "rename" {
		w.DirStates[w.dirState()] = true
	}
	if w.CheckDirEvery && op.Kind != "api" && op.Kind != "sleep" && !(op.Kind == "rename" && vos.PathClass(op.Dst) == "list") {
		// the state after *every* operation must be openable and show the last
		// committed state (this is also the state a crash at this point leaves)
		w.DirChecks++
		if d, _, ok := w.checkDir(op.String()); ok && d != w.Model.Dump() {
			w.violate([]string{"C06", "C05"}, "intermediate-state-is-no-committed-state", "after %s a fresh reader sees a state that is not the last committed one: %s", op.String(), gen.DiffLines(w.Model.Dump(), d))
		}
	}
}

func (w *World) dirState() string {
	var parts []string
	for _, n := range stx.DirNames(w.Dir) {
		parts = append(parts, stx.ClassOf(n))
	}
	names, _ := stx.ListNames(w.Dir)
	return fmt.Sprintf("%s|listed=%d", strings.Join(parts, ","), len(names))
}

func (w *World) listTouched(op *vos.Op, how string) {
	w.violate([]string{"C05"}, "list-modified-in-place", "tables.list %s by %s (it may only be replaced by rename)", how, op.String())
	w.checkDir(op.String())
}

// checkRemovedTable: a table that the current list names must never disappear.
func (w *World) checkRemovedTable(op *vos.Op, path string) {
	names, ok := stx.ListNames(w.Dir)
	if !ok {
		return
	}
	for _, n := range names {
		if n == base(path) {
			call := "?"
			if ci := w.calls[op.Proc]; ci != nil {
				call = ci.Kind
			}
			props := []string{"C05"}
			if call == "close" || call == "clean" {
				props = []string{"C05", "C16"} // Close and Clean never remove a listed table
			}
			w.violate(props, "listed-table-removed|by-"+call, "%s removed a table that tables.list names (list %v)", op.String(), names)
			return
		}
	}
}

// checkDir is M-dir: list integrity, table validity, ordering, fresh open.
func (w *World) checkDir(where string) (dump string, names []string, ok bool) {
	names, have := stx.ListNames(w.Dir)
	if !have {
		names = nil
	}
	var lastMax uint64
	hs := w.GCfg.HashSize()
	for i, n := range names {
		p := filepath.Join(w.Dir, n)
		fi, err := os.Stat(p)
		if err != nil {
			w.violate([]string{"C05"}, "list-names-missing-table", "after %s: tables.list names %s which does not exist (list %v, dir %v)", where, n, names, stx.DirNames(w.Dir))
			return "", names, false
		}
		key := fmt.Sprintf("%s/%d/%d", n, fi.Size(), inoOf(p))
		if _, seen := w.tableOK[key]; !seen {
			data, err := os.ReadFile(p)
			if err != nil {
				w.violate([]string{"C05"}, "listed-table-unreadable", "after %s: %s: %v", where, n, err)
				return "", names, false
			}
			info, findings := dec.Decode(data, dec.Options{StructuralOnly: true})
			w.TablesDecoded++
			if len(findings) > 0 || info == nil {
				w.violate([]string{"C05", "C14"}, "listed-table-malformed|"+findings[0].Rule, "after %s: listed table %s is not a complete valid table: %v", where, n, findings)
				return "", names, false
			}
			if info.HashSize != hs {
				w.violate([]string{"C05"}, "listed-table-wrong-hash", "after %s: listed table %s has hash size %d, the stack uses %d", where, n, info.HashSize, hs)
				return "", names, false
			}
			w.tableOK[key] = true
			w.tableOK["min/"+key] = true
		}
		data, _ := os.ReadFile(p)
		if len(data) >= 24 {
			min := be64(data[8:16])
			max := be64(data[16:24])
			if i > 0 && min <= lastMax {
				w.violate([]string{"C05"}, "list-ranges-not-increasing", "after %s: table %d (%s) has range [%d,%d] but the previous table ends at %d", where, i, n, min, max, lastMax)
				return "", names, false
			}
			lastMax = max
		}
	}
	// a fresh open must succeed
	w.FreshOpens++
	d, _, err := stx.FreshView(w.Dir, w.Cfg)
	if err != nil {
		sig := "fresh-open-failed|" + errCls(err)
		if rtx.IsPanic(err) {
			sig = "fresh-open-panic"
		}
		w.violate([]string{"C05"}, sig, "after %s: opening the directory fails: %v (list %v)", where, err, names)
		return "", names, false
	}
	return d, names, true
}

func be64(b []byte) uint64 {
	var v uint64
	for i := 0; i < 8; i++ {
		v = v<<8 | uint64(b[i])
	}
	return v
}

func errCls(err error) string {
	s := err.Error()
	for _, k := range []string{"file does not exist", "no such file", "file already closed", "hash ID", "indices must be increasing", "format error", "unexpected EOF", "lock failure", "file exists"} {
		if strings.Contains(s, k) {
			return strings.ReplaceAll(k, " ", "-")
		}
	}
	return "other"
}

// onCommit is M-commit: a rename onto tables.list produced a new committed version.
func (w *World) onCommit(op *vos.Op) {
	w.Commits++
	// M-lock: the bytes of the new list must be what the committer wrote through the
	// descriptor of the lock file it created.
	if vos.PathClass(op.Path) == "list.lock" {
		got, _ := os.ReadFile(filepath.Join(w.Dir, "tables.list"))
		wrote := w.writtenBy(op.Proc, op.Path)
		if wrote != nil && !bytes.Equal(got, wrote) {
			w.violate([]string{"C08", "C04"}, "committed-list-differs-from-written", "%s: tables.list now holds %q but p%d wrote %q into its lock file", op.String(), got, op.Proc, wrote)
		}
	}
	ci := w.calls[op.Proc]
	what := "?"
	if ci != nil {
		what = ci.Kind
	}
	// every name dropped from the list becomes the committer's responsibility to delete;
	// every name in the list is nobody's residue any more
	prevNames := w.Versions[len(w.Versions)-1].Names
	dump, names, ok := w.checkDir(op.String())
	inNew := map[string]bool{}
	for _, n := range names {
		inNew[n] = true
		delete(w.owned, filepath.Join(w.Dir, n))
	}
	for _, n := range prevNames {
		if !inNew[n] {
			p := filepath.Join(w.Dir, n)
			// M-lock: a table leaves the list only through a compaction, and a
			// compaction has to hold that table's lock: a commit that drops a table
			// while another live process holds its compaction lock means two
			// compactions rewrite the same table
			if li := w.locks[p+".lock"]; li != nil && li.owner != op.Proc && !w.Crashed[li.owner] {
				w.violate([]string{"C08"}, "table-compacted-under-foreign-lock", "%s: the new tables.list drops %s although p%d holds %s.lock (two compactions rewrite the same table)", op.String(), n, li.owner, n)
			}
			if _, err := os.Lstat(p); err == nil {
				w.owned[p] = op.Proc
			}
		}
	}
	v := Version{Names: names, Dump: dump, Readable: ok, Step: w.S.Step, By: op.Proc, What: what}
	if !ok {
		w.Versions = append(w.Versions, v)
		return
	}
	// refinement: the new view must be the old view, or the old view plus the
	// committer's pending transaction(s), or the old view after the committer's expiry
	prev := w.Model
	if dump == prev.Dump() {
		w.Versions = append(w.Versions, v)
		return
	}
	if ci != nil && (ci.Kind == "add" || ci.Kind == "addmulti") && len(ci.UIs) == len(ci.Txns) && len(ci.Txns) > 0 {
		m := prev.Clone()
		for i, t := range ci.Txns {
			m.Apply(t, ci.UIs[i])
		}
		if dump == m.Dump() {
			for _, t := range ci.Txns {
				w.applied[t.ID]++
				if w.applied[t.ID] > 1 {
					w.violate([]string{"C04"}, "transaction-applied-twice", "%s: transaction t%d was committed a second time", op.String(), t.ID)
				}
			}
			ci.Applied = true
			ci.AppliedTimes++
			ci.VersionIdx = len(w.Versions)
			w.Model = m
			v.What = fmt.Sprintf("%s %s", ci.Kind, txnIDs(ci.Txns))
			w.Versions = append(w.Versions, v)
			return
		}
	}
	if ci != nil && ci.Kind == "compactexpiry" && ci.Expiry != nil {
		m := prev.Clone()
		for k, l := range m.Logs {
			if !keepLog(&l, ci.Expiry) {
				delete(m.Logs, k)
			}
		}
		if dump == m.Dump() {
			w.Model = m
			w.Versions = append(w.Versions, v)
			return
		}
	}
	props := []string{"C04"}
	sig := "commit-changed-state|by-" + what
	if ci != nil && ci.Kind != "add" && ci.Kind != "addmulti" {
		props = []string{"C04", "C07"}
	}
	if ci != nil && (ci.Kind == "add" || ci.Kind == "addmulti") && ci.Applied {
		// the rename belongs to the auto-compaction that follows a committed Add
		props = []string{"C04", "C07"}
		sig = "commit-changed-state|by-autocompaction"
	}
	w.violate(props, sig, "%s (p%d in %s): the committed state changed to something that is neither the previous state nor the previous state plus this call's transaction: %s; list %v -> %v",
		op.String(), op.Proc, what, gen.DiffLines(prev.Dump(), dump), prevNames, names)
	// adopt what is on disk so that later commits are judged relative to it
	w.adoptDisk(dump)
	w.Versions = append(w.Versions, v)
}

func txnIDs(ts []*gen.Txn) string {
	var s []string
	for _, t := range ts {
		s = append(s, fmt.Sprintf("t%d", t.ID))
	}
	return strings.Join(s, "+")
}

// adoptDisk replaces the model by what a fresh reader sees (after a violation).
func (w *World) adoptDisk(dump string) {
	refs, logs, err := gen.ParseDump(dump)
	if err != nil {
		return
	}
	m := gen.NewModel(w.Model.HS, w.Model.Exact)
	for _, r := range refs {
		m.Refs[r.Name] = r
	}
	for _, l := range logs {
		m.Logs[gen.LogKey{Name: l.Name, UI: l.UI}] = l
	}
	w.Model = m
}

func keepLog(l *gen.Log, e *reftable.LogExpirationConfig) bool {
	if l.Del {
		return true
	}
	if e.Time > 0 && l.Time < e.Time {
		return false
	}
	if e.MaxUpdateIndex != 0 && l.UI > e.MaxUpdateIndex {
		return false
	}
	if e.MinUpdateIndex != 0 && l.UI < e.MinUpdateIndex {
		return false
	}
	return true
}

// writtenBy returns the bytes process p wrote through its descriptor of path.
func (w *World) writtenBy(p int, path string) []byte {
	if li := w.lockFiles[lockKey{p, path}]; li != nil {
		return li
	}
	return nil
}

type lockKey struct {
	proc int
	path string
}

// ---- API-call boundaries (called by the script runner) ----------------------------

// Begin records the start of an API call of process p.
func (w *World) Begin(p *vos.Proc, ci *CallInfo) {
	ci.Start = w.S.Step
	w.calls[p.ID] = ci
	p.CurCall = ci.Kind
	if len(w.active) > 0 {
		w.Overlap = true
	}
	w.active[p.ID] = true
}

// End records the end of an API call and runs the idle-point monitors (M-own).
func (w *World) End(p *vos.Proc, ci *CallInfo) {
	delete(w.calls, p.ID)
	delete(w.active, p.ID)
	p.CurCall = ""
	w.checkIdle(p.ID, ci.Kind)
}

// checkIdle: an idle process owns no lock, no temp file, no unlisted table, and has
// deleted every table its commits dropped from the list.
func (w *World) checkIdle(pid int, after string) {
	var left []string
	for path, owner := range w.owned {
		if owner != pid {
			continue
		}
		if _, err := os.Lstat(path); err != nil {
			delete(w.owned, path)
			continue
		}
		left = append(left, path)
	}
	if len(left) == 0 {
		return
	}
	sort.Strings(left)
	cls := map[string]bool{}
	for _, l := range left {
		cls[vos.PathClass(l)] = true
	}
	var cl []string
	for c := range cls {
		cl = append(cl, c)
	}
	sort.Strings(cl)
	var bases []string
	for _, l := range left {
		bases = append(bases, base(l))
	}
	w.violate([]string{"C16"}, "idle-process-owns-files|"+strings.Join(cl, ","), "p%d returned from %s but still owns %v (list %v)", pid, after, bases, mustNames(w.Dir))
	for _, l := range left {
		delete(w.owned, l)
	}
}

func mustNames(dir string) []string {
	n, _ := stx.ListNames(dir)
	return n
}

// Quiescence: every script ended; called before and after the handles are closed.
func (w *World) Quiescence(when string) {
	res := stx.Residue(w.Dir)
	var bad []string
	for _, n := range res {
		p := filepath.Join(w.Dir, n)
		if owner, ok := w.owned[p]; ok && w.Crashed[owner] {
			continue // leftovers of a crashed process are allowed to stay
		}
		if w.Excused[p] {
			continue // its unlink failed with an injected error
		}
		if w.anyCrashed() && ownerUnknown(w, p) {
			continue
		}
		bad = append(bad, n)
	}
	if len(bad) == 0 {
		return
	}
	cls := map[string]bool{}
	for _, b := range bad {
		cls[stx.ClassOf(b)] = true
	}
	var cl []string
	for c := range cls {
		cl = append(cl, c)
	}
	sort.Strings(cl)
	w.violate([]string{"C16"}, "residue-at-quiescence|"+strings.Join(cl, ","), "%s: all processes idle, directory holds %v besides tables.list and the %d listed tables", when, bad, len(mustNames(w.Dir)))
}

func ownerUnknown(w *World, p string) bool {
	_, ok := w.owned[p]
	return !ok
}

// OnCrash is installed as the scheduler's crash hook.
func (w *World) OnCrash(s *vos.Sched, p *vos.Proc) {
	w.Crashed[p.ID] = true
	// the dead process's locks stay on disk but nobody holds them any more in the
	// sense of M-lock (nobody will remove them as owner); keep the ledger entry so
	// that removal by others is still seen as "removed by non-owner"? A later process
	// is allowed to fail on them, not to delete them - the code never does. Keep.
	delete(w.active, p.ID)
}

// CrashCheck is run right after a process was killed: the directory must be openable
// and show exactly the last committed state.
func (w *World) CrashCheck() (string, bool) {
	d, _, ok := w.checkDir("the crash")
	if !ok {
		w.violate([]string{"C06"}, "crash-left-unopenable-directory", "after killing a process the directory cannot be opened (list %v, dir %v)", mustNames(w.Dir), stx.DirNames(w.Dir))
		return "", false
	}
	if d != w.Model.Dump() {
		w.violate([]string{"C06"}, "crash-left-non-committed-state", "after killing a process a fresh reader sees neither the state before nor after the interrupted call: %s", gen.DiffLines(w.Model.Dump(), d))
		return d, false
	}
	return d, true
}
