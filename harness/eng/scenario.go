package eng

import (
	"fmt"
	"io"
	"math/rand"
	"os"
	"path/filepath"
	"strings"
	"time"

	"github.com/anishathalye/porcupine"
	"github.com/google/reftable"
	"github.com/google/reftable/verifvfs/vos"
	"verif/harness/gen"
	"verif/harness/stx"
)

// Policy decides which process performs its next hooked operation.
type Policy interface {
	Pick(s *vos.Sched, runnable []*vos.Proc) *vos.Proc
	Name() string
}

// Sweep1: process A runs until its K-th hooked operation is pending; then all others run
// (in id order) until done (or until they completed M API calls in total, M<=0: all);
// then A resumes.
type Sweep1 struct {
	A, K   int
	Paused bool // set when the pause actually took effect
}

func (p *Sweep1) Name() string { return fmt.Sprintf("sweep1(A=p%d,k=%d)", p.A, p.K) }
func (p *Sweep1) Pick(s *vos.Sched, r []*vos.Proc) *vos.Proc {
	var a *vos.Proc
	var others []*vos.Proc
	for _, x := range r {
		if x.ID == p.A {
			a = x
		} else {
			others = append(others, x)
		}
	}
	if a != nil && a.NOps() < p.K-1 {
		return a
	}
	if len(others) > 0 {
		if a != nil {
			p.Paused = true
		}
		return others[0]
	}
	return a
}

// Sweep1After: process First runs to completion before anything else (it makes the
// pre-opened handles of the others stale); then like Sweep1.
type Sweep1After struct {
	First  int
	A, K   int
	Paused bool
}

func (p *Sweep1After) Name() string {
	return fmt.Sprintf("p%d first, then sweep1(A=p%d,k=%d)", p.First, p.A, p.K)
}
func (p *Sweep1After) Pick(s *vos.Sched, r []*vos.Proc) *vos.Proc {
	var a *vos.Proc
	var others []*vos.Proc
	for _, x := range r {
		switch x.ID {
		case p.First:
			return x
		case p.A:
			a = x
		default:
			others = append(others, x)
		}
	}
	if a != nil && a.NOps() < p.K-1 {
		return a
	}
	if len(others) > 0 {
		if a != nil {
			p.Paused = true
		}
		return others[0]
	}
	return a
}

// PingPong: A runs to its op K1, B runs to its op J, A continues to its op K2 (> K1), then B
// finishes, then A finishes (two processes alternating twice).
type PingPong struct {
	A, B       int
	K1, J, K2  int
	stage      int
	Effective  bool // all three pauses took effect
}

func (p *PingPong) Name() string {
	return fmt.Sprintf("pingpong(A=p%d@%d, B=p%d@%d, A@%d)", p.A, p.K1, p.B, p.J, p.K2)
}
func (p *PingPong) Pick(s *vos.Sched, r []*vos.Proc) *vos.Proc {
	var a, b *vos.Proc
	var others []*vos.Proc
	for _, x := range r {
		switch x.ID {
		case p.A:
			a = x
		case p.B:
			b = x
		default:
			others = append(others, x)
		}
	}
	if p.stage == 0 {
		if a != nil && a.NOps() < p.K1-1 {
			return a
		}
		p.stage = 1
	}
	if p.stage == 1 {
		if b != nil && b.NOps() < p.J-1 {
			return b
		}
		p.stage = 2
	}
	if p.stage == 2 {
		if a != nil && a.NOps() < p.K2-1 {
			return a
		}
		if a != nil && b != nil {
			p.Effective = true
		}
		p.stage = 3
	}
	if b != nil {
		return b
	}
	if a != nil {
		return a
	}
	return others[0]
}

// Sweep2: A paused before op KA, then B paused before op KB, then the rest, then B, then A.
type Sweep2 struct {
	A, KA, B, KB int
	Paused       bool
}

func (p *Sweep2) Name() string {
	return fmt.Sprintf("sweep2(A=p%d,k=%d,B=p%d,j=%d)", p.A, p.KA, p.B, p.KB)
}
func (p *Sweep2) Pick(s *vos.Sched, r []*vos.Proc) *vos.Proc {
	var a, b *vos.Proc
	var others []*vos.Proc
	for _, x := range r {
		switch x.ID {
		case p.A:
			a = x
		case p.B:
			b = x
		default:
			others = append(others, x)
		}
	}
	if a != nil && a.NOps() < p.KA-1 {
		return a
	}
	if b != nil && b.NOps() < p.KB-1 {
		return b
	}
	if len(others) > 0 {
		if a != nil && b != nil {
			p.Paused = true
		}
		return others[0]
	}
	if b != nil {
		return b
	}
	return a
}

// PCT: random priorities with d-1 priority change points.
type PCT struct {
	Prio    map[int]int
	Change  map[int]bool // steps at which the running process drops to the lowest priority
	low     int
	D       int
}

func NewPCT(rng *rand.Rand, nprocs, d, maxSteps int) *PCT {
	p := &PCT{Prio: map[int]int{}, Change: map[int]bool{}, D: d, low: 0}
	perm := rng.Perm(nprocs)
	for i, x := range perm {
		p.Prio[i] = x + d
	}
	for i := 0; i < d-1; i++ {
		p.Change[1+rng.Intn(maxSteps)] = true
	}
	return p
}
func (p *PCT) Name() string { return fmt.Sprintf("pct(d=%d)", p.D) }
func (p *PCT) Pick(s *vos.Sched, r []*vos.Proc) *vos.Proc {
	best := r[0]
	for _, x := range r[1:] {
		if p.Prio[x.ID] > p.Prio[best.ID] {
			best = x
		}
	}
	if p.Change[s.Step] {
		delete(p.Change, s.Step)
		p.low--
		p.Prio[best.ID] = p.low
		// re-pick
		best = r[0]
		for _, x := range r[1:] {
			if p.Prio[x.ID] > p.Prio[best.ID] {
				best = x
			}
		}
	}
	return best
}

// Uniform picks uniformly at random.
type Uniform struct{ Rng *rand.Rand }

func (p *Uniform) Name() string { return "uniform" }
func (p *Uniform) Pick(s *vos.Sched, r []*vos.Proc) *vos.Proc { return r[p.Rng.Intn(len(r))] }

// Seq runs the processes one after the other (no interleaving).
type Seq struct{}

func (p *Seq) Name() string                                   { return "sequential" }
func (p *Seq) Pick(s *vos.Sched, r []*vos.Proc) *vos.Proc { return r[0] }

// ---- lab: template directories ------------------------------------------------------

// Recipe describes the initial stack: one table per entry, the entry is the number of
// filler refs of its transaction (table size class).
type Recipe []int

func (r Recipe) String() string { return fmt.Sprint([]int(r)) }

type template struct {
	dir   string
	model *gen.Model
	dump  string
	names []string
}

// Lab builds and caches initial directories.
type Lab struct {
	Work      string
	templates map[string]*template
	n         int
	SetAuto   func(st *reftable.Stack, on bool) // nil if the wrapper is unavailable
	Keys      []string
}

func NewLab(work string) *Lab {
	return &Lab{Work: work, templates: map[string]*template{}, Keys: gen.FlatKeys(4)}
}

func (l *Lab) template(gcfg gen.Cfg, rec Recipe) (*template, error) {
	key := gcfg.String() + rec.String()
	if t, ok := l.templates[key]; ok {
		return t, nil
	}
	l.n++
	dir := filepath.Join(l.Work, fmt.Sprintf("tmpl-%d", l.n))
	os.RemoveAll(dir)
	if err := os.MkdirAll(dir, 0755); err != nil {
		return nil, err
	}
	w := NewWorld(dir, gcfg)
	st, err := stx.Open(dir, w.Cfg)
	if err != nil {
		return nil, fmt.Errorf("template open: %v", err)
	}
	if l.SetAuto != nil {
		l.SetAuto(st, false)
	}
	rng := gen.NewRng(int64(len(rec))*7919 + 13)
	model := gen.NewModel(gcfg.HashSize(), gcfg.ExactLog)
	for i, filler := range rec {
		var t *gen.Txn
		switch filler {
		case -1: // creates two refs, no logs, no journal
			t = &gen.Txn{ID: i + 1, Refs: []gen.Ref{{Name: "refs/cancel/a", Kind: gen.KVal, Value: gen.IDHash(i+1, 0, gcfg.HashSize())}, {Name: "refs/cancel/b", Kind: gen.KSym, Target: "refs/heads/k00"}}}
		case -3: // one ref and 60 reflog entries: a log section of many blocks at small block sizes
			t = &gen.Txn{ID: i + 1, Refs: []gen.Ref{{Name: "refs/heads/k00", Kind: gen.KVal, Value: gen.IDHash(i+1, 0, gcfg.HashSize())}}}
			for j := 0; j < 60; j++ {
				t.Logs = append(t.Logs, gen.Log{Name: fmt.Sprintf("refs/logged/%03d", j), New: gen.IDHash(i+1, j+1, gcfg.HashSize()), User: "user", Email: "user@example.org",
					Time: 1 << 40, Msg: fmt.Sprintf("entry %d of a table with a long log section\n", j)})
			}
			t.Refs = append(t.Refs, gen.Ref{Name: gen.JournalRef, Kind: gen.KVal, Value: gen.IDHash(i+1, 999, gcfg.HashSize())})
			t.Logs = append(t.Logs, gen.Log{Name: gen.JournalRef, New: gen.IDHash(i+1, 999, gcfg.HashSize()), User: "j", Email: "j@x", Time: 1<<40 + uint64(i+1), Msg: fmt.Sprintf("t%d", i+1)})
		case -2: // deletes them again: a range holding a -1 and a -2 table compacts to nothing
			t = &gen.Txn{ID: i + 1, Refs: []gen.Ref{{Name: "refs/cancel/a", Kind: gen.KDel}, {Name: "refs/cancel/b", Kind: gen.KDel}}}
		default:
			t = gen.GenTxn(rng, i+1, model, gen.TxnOpts{Keys: l.Keys, MaxRefs: 2, Journal: true, DelP: 0.2, Filler: filler})
		}
		ui, err := stx.Apply(st, t)
		if err != nil {
			stx.SafeClose(st)
			return nil, fmt.Errorf("template add: %v", err)
		}
		model.Apply(t, ui)
	}
	stx.SafeClose(st)
	dump, names, err := stx.FreshView(dir, w.Cfg)
	if err != nil {
		return nil, fmt.Errorf("template view: %v", err)
	}
	if dump != model.Dump() {
		return nil, fmt.Errorf("template view differs from its model: %s", gen.DiffLines(model.Dump(), dump))
	}
	t := &template{dir: dir, model: model, dump: dump, names: names}
	l.templates[key] = t
	return t, nil
}

func copyDir(src, dst string) error {
	os.RemoveAll(dst)
	if err := os.MkdirAll(dst, 0755); err != nil {
		return err
	}
	es, err := os.ReadDir(src)
	if err != nil {
		return err
	}
	for _, e := range es {
		in, err := os.Open(filepath.Join(src, e.Name()))
		if err != nil {
			return err
		}
		out, err := os.Create(filepath.Join(dst, e.Name()))
		if err != nil {
			in.Close()
			return err
		}
		_, err = io.Copy(out, in)
		in.Close()
		out.Close()
		if err != nil {
			return err
		}
	}
	return nil
}

// ---- scenario ---------------------------------------------------------------------

type Scenario struct {
	Name    string
	GCfg    gen.Cfg
	Init    Recipe
	Scripts [][]Call
	Policy  Policy
	// crash process CrashProc immediately before its CrashAt-th hooked op (0 = none)
	CrashProc, CrashAt int
	// SkipTmpWrites: table-body writes are not yield points
	SkipTmpWrites bool
	// PreOpen: handles are opened sequentially before scheduling starts
	PreOpen bool
	// CheckDirEvery: run M-dir (incl. a fresh open) after every single operation
	CheckDirEvery bool
	// AfterCrash is called right after the crash was injected (monitor context)
	AfterCrash func(w *World)
	// FaultAt > 0: the FaultAt-th hooked filesystem operation of process FaultProc
	// fails with an injected I/O error (once)
	FaultProc, FaultAt int
	// HookReads: reads of table files are hooked operations too (they can take the fault)
	HookReads bool
	// ClockStep: virtual time that passes per clock reading of a process (0 = 100us)
	ClockStep time.Duration
	// FaultTableRemoves: removals of table files can take the injected fault too
	FaultTableRemoves bool
	// CoarseMtime: every FileInfo the code obtains carries a modification time truncated
	// to this granularity (vos.MtimeGranularity) for the duration of the scenario
	CoarseMtime time.Duration
	// ClockAhead: see vos.Sched.ClockAhead (0 = the virtual clock runs before all file times)
	ClockAhead time.Duration
}

type Result struct {
	W        *World
	Actors   []*Actor
	Procs    []*vos.Proc
	Steps    int
	Sig      string
	Aborted  bool
	FinalDump string
	FinalErr  error
	SetupErr  error
	Trace    []string
}

// Run executes one scenario in a fresh copy of the template directory.
func (l *Lab) Run(sc *Scenario, dirName string) *Result {
	res := &Result{}
	tmpl, err := l.template(sc.GCfg, sc.Init)
	if err != nil {
		res.SetupErr = err
		return res
	}
	dir := filepath.Join(l.Work, dirName)
	if err := copyDir(tmpl.dir, dir); err != nil {
		res.SetupErr = err
		return res
	}
	defer os.RemoveAll(dir)
	w := NewWorld(dir, sc.GCfg)
	res.W = w
	w.Model = tmpl.model.Clone()
	w.Versions = []Version{{Names: append([]string(nil), tmpl.names...), Dump: tmpl.dump, Readable: true, What: "init", By: -1}}
	s := vos.NewSched()
	s.SkipTmpWrites = sc.SkipTmpWrites
	s.HookReads = sc.HookReads
	s.ClockStep = sc.ClockStep
	s.ClockAhead = sc.ClockAhead
	vos.MtimeGranularity = sc.CoarseMtime
	defer func() { vos.MtimeGranularity = 0 }()
	s.FaultTableRemoves = sc.FaultTableRemoves
	s.PreOp = w.PreOp
	s.PostOp = w.PostOp
	s.OnCrash = w.OnCrash
	s.Pick = sc.Policy.Pick
	w.S = s
	w.CheckDirEvery = sc.CheckDirEvery
	_, w.SoloRule = sc.Policy.(*Seq)
	if sc.AfterCrash != nil {
		s.OnCrash = func(s *vos.Sched, p *vos.Proc) {
			w.OnCrash(s, p)
			sc.AfterCrash(w)
		}
	}
	for i, script := range sc.Scripts {
		a := &Actor{ID: i, W: w, Script: script}
		if sc.PreOpen {
			st, err := stx.Open(dir, w.Cfg)
			if err != nil {
				res.SetupErr = err
				return res
			}
			a.St = st
		}
		res.Actors = append(res.Actors, a)
		p := s.Spawn(fmt.Sprintf("p%d", i), a.Body())
		if sc.CrashAt > 0 && sc.CrashProc == i {
			p.CrashAt = sc.CrashAt
		}
		if sc.FaultAt > 0 && sc.FaultProc == i {
			p.FaultAt = sc.FaultAt
		}
		res.Procs = append(res.Procs, p)
	}
	s.Run()
	res.Steps = s.Step
	res.Aborted = s.Aborted
	// schedule signature
	var sb strings.Builder
	for _, op := range s.Trace {
		fmt.Fprintf(&sb, "%d@%s;", op.Proc, op.Site)
	}
	res.Sig = sb.String()
	if len(w.Viols) > 0 {
		for _, op := range s.Trace {
			o := op
			res.Trace = append(res.Trace, o.String())
		}
		if len(res.Trace) > 400 {
			res.Trace = res.Trace[len(res.Trace)-400:]
		}
	}
	if !res.Aborted {
		w.Quiescence("before the handles are closed")
	}
	s.Reap()
	// close the handles of live actors (transparent mode: the scheduler is not active)
	for _, a := range res.Actors {
		if a.St != nil && !w.Crashed[a.ID] {
			stx.SafeClose(a.St)
			a.St = nil
		}
	}
	if !res.Aborted {
		w.Quiescence("after all handles were closed")
		res.finalChecks()
	}
	return res
}

// finalChecks: the state a fresh handle sees equals the fold of the committed
// transactions; acknowledged Adds are present; failed ones absent; the history is
// linearizable.
func (res *Result) finalChecks() {
	w := res.W
	dump, _, err := stx.FreshView(w.Dir, w.Cfg)
	res.FinalDump, res.FinalErr = dump, err
	if err != nil {
		w.violate([]string{"C05", "C04"}, "final-open-failed|"+errCls(err), "a fresh handle cannot open the directory at the end: %v (list %v, dir %v)", err, mustNames(w.Dir), stx.DirNames(w.Dir))
		return
	}
	if dump != w.Model.Dump() {
		w.violate([]string{"C04"}, "final-state-differs-from-commit-history", "the final state is not the fold of the observed commits: %s", gen.DiffLines(w.Model.Dump(), dump))
	}
	refs, logs, _ := gen.ParseDump(dump)
	journal := JournalOf(refs, logs)
	in := map[string]bool{}
	for _, id := range strings.Split(journal, ",") {
		in[id] = true
	}
	for hi := range w.Hist {
		h := &w.Hist[hi]
		if h.Kind != "add" || h.Return < 0 {
			continue
		}
		if h.Indeterminate {
			// failed by an injected I/O error: took effect or not, but not partially
			n := 0
			for _, id := range h.TxnIDs {
				if in[fmt.Sprint(id)] {
					n++
				}
			}
			if n != 0 && n != len(h.TxnIDs) {
				w.violate([]string{"C04"}, "io-failed-addition-partially-visible", "Addition %v failed by an injected I/O error is partially in the final state (journal %s)", h.TxnIDs, journal)
			}
			h.Ok = n > 0
			continue
		}
		for _, id := range h.TxnIDs {
			switch {
			case h.Ok && !in[fmt.Sprint(id)]:
				w.violate([]string{"C04"}, "acked-transaction-lost", "Add of t%d returned nil at step %d but the transaction is not in the final state (journal %s)", id, h.Return, journal)
			case !h.Ok && in[fmt.Sprint(id)]:
				w.violate([]string{"C04"}, "failed-transaction-visible", "Add of t%d failed (%s) but the transaction is in the final state (journal %s)", id, h.Err, journal)
			}
		}
	}
	// the final read takes part in the linearizability check
	w.Hist = append(w.Hist, HistEvent{Proc: 99, Kind: "read", Call: w.S.Step + 1, Return: w.S.Step + 2, Ok: true, Output: journal})
	res.checkLinearizable()
}

type porcIn struct {
	Add  bool
	IDs  string // comma separated ids of the transaction(s)
	Open bool   // crashed: effect unknown
}
type porcOut struct {
	Ok      bool
	Journal string
}

// checkLinearizable runs porcupine over the client-boundary history. State = journal
// (comma separated txn ids in commit order) relative to the initial journal.
func (res *Result) checkLinearizable() {
	w := res.W
	refs, logs, _ := gen.ParseDump(w.Versions[0].Dump)
	init := JournalOf(refs, logs)
	model := porcupine.NondeterministicModel{
		Init: func() []interface{} { return []interface{}{init} },
		Step: func(st, in, out interface{}) []interface{} {
			s := st.(string)
			i := in.(porcIn)
			o := out.(porcOut)
			if i.Add {
				app := s
				if i.IDs != "" {
					if app != "" {
						app += ","
					}
					app += i.IDs
				}
				if i.Open {
					return []interface{}{s, app}
				}
				if o.Ok {
					return []interface{}{app}
				}
				return []interface{}{s}
			}
			if !o.Ok {
				return []interface{}{s} // a failed read constrains nothing here (C05/C10 judge it)
			}
			if o.Journal == s {
				return []interface{}{s}
			}
			return nil
		},
		Equal: func(a, b interface{}) bool { return a.(string) == b.(string) },
	}
	var ops []porcupine.Operation
	end := int64(w.S.Step + 10)
	for _, h := range w.Hist {
		var ids []string
		for _, id := range h.TxnIDs {
			ids = append(ids, fmt.Sprint(id))
		}
		op := porcupine.Operation{ClientId: h.Proc % 100, Call: int64(h.Call), Return: int64(h.Return)}
		if h.Kind == "add" {
			op.Input = porcIn{Add: true, IDs: strings.Join(ids, ","), Open: h.Return < 0}
			op.Output = porcOut{Ok: h.Ok}
		} else {
			op.Input = porcIn{}
			op.Output = porcOut{Ok: h.Ok, Journal: h.Output}
		}
		if h.Return < 0 {
			op.Return = end // stays open until the end of the history
		}
		ops = append(ops, op)
	}
	w.HistOps = len(ops)
	r, _ := porcupine.CheckOperationsVerbose(model.ToModel(), ops, 30*time.Second)
	switch r {
	case porcupine.Illegal:
		var sb strings.Builder
		for _, h := range w.Hist {
			fmt.Fprintf(&sb, "p%d %s %v [%d,%d] ok=%v out=%q err=%q\n", h.Proc, h.Kind, h.TxnIDs, h.Call, h.Return, h.Ok, h.Output, h.Err)
		}
		w.violate([]string{"C04"}, "history-not-linearizable", "no sequential order of the calls explains the results (initial journal %q):\n%s", init, sb.String())
	case porcupine.Unknown:
		w.LinUnknown = true
	}
}
