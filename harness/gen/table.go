package gen

import (
	"fmt"
	"math"
	"math/rand"
	"sort"
	"strings"
)

// Cfg mirrors reftable.Config plus the update-index limits given to SetLimits.
type Cfg struct {
	SHA256           bool
	BlockSize        uint32 // 0 = default (4096)
	Restart          int    // 0 = default (16)
	Unaligned        bool
	SkipIndexObjects bool
	ExactLog         bool
	Min, Max         uint64
	SetLimits        bool
}

func (c Cfg) HashSize() int {
	if c.SHA256 {
		return 32
	}
	return 20
}

func (c Cfg) EffBlockSize() int {
	if c.BlockSize == 0 {
		return 4096
	}
	return int(c.BlockSize)
}

func (c Cfg) String() string {
	h := "sha1"
	if c.SHA256 {
		h = "s256"
	}
	return fmt.Sprintf("%s bs=%d ri=%d unaligned=%v skipobj=%v exact=%v limits=%v[%d,%d]", h, c.BlockSize, c.Restart,
		c.Unaligned, c.SkipIndexObjects, c.ExactLog, c.SetLimits, c.Min, c.Max)
}

// Table is a generated table: configuration and the records handed to the writer.
type Table struct {
	Cfg  Cfg
	Refs []Ref
	Logs []Log
	Note string
}

// Rng is a thin wrapper with helpers.
type Rng struct{ *rand.Rand }

func NewRng(seed int64) *Rng { return &Rng{rand.New(rand.NewSource(seed))} }

// Mix derives a sub-seed.
func Mix(a, b int64) int64 {
	x := uint64(a)*0x9E3779B97F4A7C15 + uint64(b) + 0x632BE59BD9B4E019
	x ^= x >> 30
	x *= 0xBF58476D1CE4E5B9
	x ^= x >> 27
	x *= 0x94D049BB133111EB
	x ^= x >> 31
	return int64(x & 0x7fffffffffffffff)
}

func (r *Rng) Pick(n int) int { return r.Intn(n) }
func (r *Rng) Chance(p float64) bool { return r.Float64() < p }
func (r *Rng) Bytes(n int) []byte {
	b := make([]byte, n)
	r.Read(b)
	return b
}

var comps = []string{"refs", "heads", "tags", "remotes", "origin", "a", "b", "ab", "c", "main", "master", "release", "feature", "x", "y", "z", "v1", "v2", "topic", "HEAD", "0", "00", "zz"}

// NameStyle selects the name grammar.
type NameStyle int

const (
	NamesPath   NameStyle = iota // refs/heads/... component paths
	NamesPrefix                  // very long shared prefix, one-byte differences
	NamesShort                   // 1-3 byte names incl. high bytes
	NamesMixed
	NamesNumbered // fixed-width numbered names (dense, many)
)

func (r *Rng) oneName(style NameStyle, i int) string {
	switch style {
	case NamesPath:
		n := 1 + r.Intn(4)
		parts := make([]string, n)
		for j := range parts {
			parts[j] = comps[r.Intn(len(comps))]
		}
		s := strings.Join(parts, "/")
		if r.Chance(0.3) {
			s += fmt.Sprintf("-%d", r.Intn(1000))
		}
		return s
	case NamesPrefix:
		base := "refs/heads/" + strings.Repeat("long-common-prefix/", 1+r.Intn(5))
		tail := make([]byte, 1+r.Intn(3))
		for j := range tail {
			tail[j] = byte('a' + r.Intn(4))
		}
		return base + string(tail)
	case NamesShort:
		n := 1 + r.Intn(3)
		b := make([]byte, n)
		for j := range b {
			switch r.Intn(4) {
			case 0:
				b[j] = byte(1 + r.Intn(31)) // control bytes, never NUL
			case 1:
				b[j] = byte(0x80 + r.Intn(0x80))
			default:
				b[j] = byte('a' + r.Intn(26))
			}
		}
		return string(b)
	case NamesNumbered:
		return fmt.Sprintf("refs/heads/branch%06d", r.Intn(1000000))
	}
	return r.oneName(NameStyle(r.Intn(3)), i)
}

// Names returns n distinct names in ascending order.
func (r *Rng) Names(n int, style NameStyle) []string {
	set := map[string]bool{}
	tries := 0
	for len(set) < n && tries < n*20+100 {
		tries++
		s := r.oneName(style, len(set))
		if s == "" || strings.IndexByte(s, 0) >= 0 {
			continue
		}
		if len(s) > 120 {
			s = s[:120]
		}
		set[s] = true
		// occasionally add a name that is a proper prefix / extension of another
		if r.Chance(0.1) && len(s) > 1 {
			set[s[:len(s)-1]] = true
		}
		if r.Chance(0.1) {
			set[s+"/x"] = true
		}
	}
	out := make([]string, 0, len(set))
	for s := range set {
		out = append(out, s)
	}
	sort.Strings(out)
	if len(out) > n {
		// drop random elements to reach n
		r.Shuffle(len(out), func(i, j int) { out[i], out[j] = out[j], out[i] })
		out = out[:n]
		sort.Strings(out)
	}
	return out
}

// HashPool hands out object ids.
type HashPool struct {
	Pool [][]byte
	size int
	r    *Rng
}

func (r *Rng) NewPool(size, n int) *HashPool {
	p := &HashPool{size: size, r: r}
	for i := 0; i < n; i++ {
		h := r.Bytes(size)
		switch r.Intn(6) {
		case 0: // shares a long prefix with the previous pool entry
			if i > 0 {
				copy(h, p.Pool[i-1][:size-1-r.Intn(3)])
			}
		case 1:
			h[0] = 0
		case 2:
			h[0] = 0xff
		}
		p.Pool = append(p.Pool, h)
	}
	return p
}

func (p *HashPool) Get() []byte {
	if len(p.Pool) == 0 || p.r.Chance(0.15) {
		return p.r.Bytes(p.size)
	}
	return append([]byte(nil), p.Pool[p.r.Intn(len(p.Pool))]...)
}

func (r *Rng) pickUI(min, max uint64) uint64 {
	if max <= min {
		return min
	}
	switch r.Intn(5) {
	case 0:
		return min
	case 1:
		return max
	}
	span := max - min
	if span == math.MaxUint64 {
		return r.Uint64()
	}
	return min + r.Uint64()%(span+1)
}

func (r *Rng) str(maxLen int) string {
	n := r.Intn(maxLen + 1)
	b := make([]byte, n)
	for i := range b {
		switch r.Intn(10) {
		case 0:
			b[i] = byte(r.Intn(256))
		case 1:
			b[i] = ' '
		default:
			b[i] = byte('a' + r.Intn(26))
		}
	}
	return string(b)
}

// Msg generates a log message in the domain of the configuration: without ExactLog a
// single line (no newline except at most one trailing), possibly with leading and
// trailing blanks; with ExactLog any bytes.
func (r *Rng) Msg(exact bool) string {
	if exact {
		switch r.Intn(6) {
		case 0:
			return ""
		case 1:
			return "line1\nline2\n"
		case 2:
			return "\n"
		case 3:
			return "no newline"
		case 4:
			return "  padded \t\n\n"
		}
		return r.str(40)
	}
	var s string
	switch r.Intn(7) {
	case 0:
		s = ""
	case 1:
		s = "commit: message"
	case 2:
		s = "  leading blanks"
	case 3:
		s = "trailing blanks \t "
	case 4:
		s = " \t "
	default:
		s = r.str(40)
	}
	// bytes >= 0x80 can form '\n'-free strings only; make sure no raw newline byte survived
	b := []byte(s)
	for i := range b {
		if b[i] == '\n' {
			b[i] = '_'
		}
	}
	s = string(b)
	if r.Chance(0.5) {
		s += "\n"
	}
	return s
}

// NormMsg is the documented normalisation: unless exact, a trailing newline is added when missing.
func NormMsg(msg string, exact bool) string {
	if exact || strings.HasSuffix(msg, "\n") {
		return msg
	}
	return msg + "\n"
}

// GenLog generates one non-deletion log entry.
func (r *Rng) GenLog(name string, ui uint64, hs int, pool *HashPool, exact bool) Log {
	l := Log{Name: name, UI: ui}
	if r.Intn(16) == 0 {
		// exactly one field differs from the zero value: still an update, not a deletion
		switch r.Intn(7) {
		case 0:
			l.Old = make([]byte, hs)
		case 1:
			l.New = pool.Get()
		case 2:
			l.User = "u"
		case 3:
			l.Email = "e"
		case 4:
			l.Time = 1 + uint64(r.Intn(3))
		case 5:
			l.TZ = int16(1 + r.Intn(600))
			if r.Chance(0.5) {
				l.TZ = -l.TZ
			}
		case 6:
			l.Msg = "m"
		}
		return l
	}
	pick := func() []byte {
		switch r.Intn(5) {
		case 0:
			return nil
		case 1:
			return make([]byte, hs)
		case 2:
			return r.Bytes(hs)
		}
		return pool.Get()
	}
	l.Old, l.New = pick(), pick()
	l.User = r.str(12)
	l.Email = r.str(16)
	switch r.Intn(6) {
	case 0:
		l.Time = 0
	case 1:
		l.Time = math.MaxUint64
	case 2:
		l.Time = uint64(r.Intn(128))
	case 3:
		l.Time = 1 << 32
	default:
		l.Time = 1500000000 + uint64(r.Intn(100000000))
	}
	switch r.Intn(5) {
	case 0:
		l.TZ = 0
	case 1:
		l.TZ = -int16(r.Intn(1200))
	case 2:
		l.TZ = math.MinInt16
	case 3:
		l.TZ = math.MaxInt16
	default:
		l.TZ = int16(r.Intn(1400))
	}
	l.Msg = r.Msg(exact)
	// A record whose fields are all zero *is* a deletion by the API's definition; make
	// sure a record meant as an update is distinguishable.
	if l.Old == nil && l.New == nil && l.User == "" && l.Email == "" && l.Time == 0 && l.TZ == 0 && l.Msg == "" {
		l.Time = 1
	}
	return l
}

// GenRef generates one ref record of a random kind.
func (r *Rng) GenRef(name string, ui uint64, hs int, pool *HashPool, delP float64) Ref {
	ref := Ref{Name: name, UI: ui}
	x := r.Float64()
	switch {
	case x < delP:
		ref.Kind = KDel
	case x < delP+(1-delP)*0.55:
		ref.Kind = KVal
		ref.Value = pool.Get()
	case x < delP+(1-delP)*0.8:
		ref.Kind = KPeeled
		ref.Value = pool.Get()
		ref.Peeled = pool.Get()
	default:
		ref.Kind = KSym
		switch r.Intn(4) {
		case 0:
			ref.Target = "refs/heads/main"
		case 1:
			ref.Target = strings.Repeat("t", 1+r.Intn(200))
		default:
			ref.Target = r.oneName(NamesPath, 0)
		}
	}
	return ref
}

var blockSizes = []uint32{0, 96, 128, 160, 200, 256, 300, 512, 1000, 1024, 4096, 65536}
var restarts = []int{0, 1, 2, 3, 16, 1000}

// Shape is what a generated table aims at.
type Shape struct {
	NRefs, NLogNames int
	Style            NameStyle
	Pool             int
	Bias             string
}

// GenTable generates the idx-th table of a seed. The first dimensions are cycled so
// that every configuration value occurs; the rest is random.
func GenTable(seed int64, idx int) *Table {
	r := NewRng(Mix(seed, int64(idx)))
	t := &Table{}
	if idx%151 == 37 {
		return genHugeBlock(r, idx)
	}
	c := &t.Cfg
	c.SHA256 = idx%2 == 1
	c.Unaligned = (idx/2)%3 == 2
	c.SkipIndexObjects = (idx/6)%3 == 1
	c.ExactLog = (idx/18)%2 == 1
	c.Restart = restarts[r.Intn(len(restarts))]
	hs := c.HashSize()

	// limits
	switch r.Intn(8) {
	case 0:
		c.SetLimits = false
	case 1:
		c.SetLimits, c.Min, c.Max = true, 0, 0
	case 2:
		c.SetLimits, c.Min, c.Max = true, 1, 1
	case 3:
		c.SetLimits, c.Min, c.Max = true, 5, 6
	case 4:
		c.SetLimits, c.Min, c.Max = true, 1<<40, 1<<40+100
	case 5:
		c.SetLimits, c.Min, c.Max = true, math.MaxUint64-3, math.MaxUint64
	case 6:
		c.SetLimits, c.Min, c.Max = true, 0, math.MaxUint64
	default:
		c.SetLimits, c.Min, c.Max = true, 7, 7+uint64(r.Intn(1<<20))
	}

	// section mix and sizes
	var nrefs, nlognames int
	sizeClass := r.Intn(20)
	sz := func() int {
		switch {
		case sizeClass < 3:
			return r.Intn(4)
		case sizeClass < 10:
			return 4 + r.Intn(60)
		case sizeClass < 17:
			return 60 + r.Intn(500)
		default:
			return 600 + r.Intn(3000)
		}
	}
	switch r.Intn(10) {
	case 0: // refs only
		nrefs = sz()
	case 1: // logs only
		nlognames = sz()
	case 2:
		// empty
	default:
		nrefs = sz()
		nlognames = sz() / (1 + r.Intn(3))
	}
	// every log block costs the writer a fresh 1.2 MB zlib compressor: keep most log
	// sections moderate, a few large
	if nlognames > 250 && r.Intn(8) != 0 {
		nlognames = 100 + r.Intn(150)
	}
	// large blocks, several of them: padding runs, restart offsets and block lengths
	// beyond 4 KiB / 64 KiB in tables that are not a single block
	large := idx%29 == 11
	if large {
		c.BlockSize = []uint32{8192, 12000, 16384, 32768, 65536, 131072}[r.Intn(6)]
		nrefs = int(c.BlockSize)/40*(2+r.Intn(3)) + r.Intn(300)
		if nrefs > 9000 {
			nrefs = 9000
		}
		if nlognames > 60 {
			nlognames = 60
		}
	}
	style := NameStyle(r.Intn(5))
	if nrefs > 500 && style == NamesShort {
		style = NamesNumbered
	}

	// block size: mostly large enough for the biggest record, biased small so that
	// multi-block sections and multi-level indexes occur.
	switch bsPick := r.Intn(10); {
	case large:
	case bsPick <= 1:
		c.BlockSize = blockSizes[r.Intn(len(blockSizes))]
	case bsPick == 2:
		c.BlockSize = uint32(96 + r.Intn(400))
	case bsPick <= 5:
		c.BlockSize = []uint32{128, 160, 200, 256}[r.Intn(4)]
	case bsPick == 6:
		c.BlockSize = []uint32{512, 1024}[r.Intn(2)]
	default:
		c.BlockSize = blockSizes[r.Intn(len(blockSizes))]
	}

	poolN := []int{0, 1, 3, 10, 50}[r.Intn(5)]
	pool := r.NewPool(hs, poolN)
	delP := []float64{0, 0.05, 0.3}[r.Intn(3)]

	names := r.Names(nrefs, style)
	for _, n := range names {
		t.Refs = append(t.Refs, r.GenRef(n, r.pickUI(c.Min, c.Max), hs, pool, delP))
	}

	// log names: partly the ref names, partly others
	var lnames []string
	if nlognames > 0 {
		set := map[string]bool{}
		for _, n := range names {
			if len(set) >= nlognames {
				break
			}
			if r.Chance(0.6) {
				set[n] = true
			}
		}
		for _, n := range r.Names(nlognames-len(set), style) {
			set[n] = true
		}
		for n := range set {
			lnames = append(lnames, n)
		}
		sort.Strings(lnames)
	}
	logDelP := []float64{0, 0.1, 0.3}[r.Intn(3)]
	for _, n := range lnames {
		k := 1 + r.Intn(4)
		uis := map[uint64]bool{}
		for j := 0; j < k; j++ {
			uis[r.pickUI(c.Min, c.Max)] = true
		}
		if r.Chance(0.2) && c.Max > c.Min {
			// neighbours
			u := r.pickUI(c.Min, c.Max-1)
			uis[u], uis[u+1] = true, true
		}
		var ul []uint64
		for u := range uis {
			ul = append(ul, u)
		}
		sort.Slice(ul, func(i, j int) bool { return ul[i] > ul[j] })
		for _, u := range ul {
			if r.Chance(logDelP) {
				t.Logs = append(t.Logs, Log{Name: n, UI: u, Del: true})
			} else {
				t.Logs = append(t.Logs, r.GenLog(n, u, hs, pool, c.ExactLog))
			}
		}
	}
	SortLogs(t.Logs)

	// Make most cases fit: raise the block size to hold the largest record unless this
	// case is one of the few that probes the "record too large" rejection.
	if !r.Chance(0.03) {
		need := 0
		for i := range t.Refs {
			if n := refSize(&t.Refs[i], hs); n > need {
				need = n
			}
		}
		for i := range t.Logs {
			if n := logSize(&t.Logs[i], hs); n > need {
				need = n
			}
		}
		need += 28 + 4 + 5 + 8
		if c.EffBlockSize() < need {
			c.BlockSize = uint32(need + r.Intn(64))
		}
	}
	t.Note = fmt.Sprintf("idx=%d refs=%d logs=%d style=%d pool=%d", idx, len(t.Refs), len(t.Logs), style, poolN)
	return t
}

func refSize(r *Ref, hs int) int {
	n := 3 + 3 + len(r.Name) + 10
	switch r.Kind {
	case KVal:
		n += hs
	case KPeeled:
		n += 2 * hs
	case KSym:
		n += 3 + len(r.Target)
	}
	return n
}

func logSize(l *Log, hs int) int {
	n := 3 + 3 + len(l.Name) + 9
	if !l.Del {
		n += 2*hs + 3 + len(l.User) + 3 + len(l.Email) + 10 + 2 + 3 + len(l.Msg) + 1
	}
	return n
}

// Expected returns the records a reader must return for the table: the input after the
// documented normalisation only.
func (t *Table) Expected() ([]Ref, []Log) {
	refs := make([]Ref, len(t.Refs))
	for i := range t.Refs {
		refs[i] = t.Refs[i].Clone()
	}
	logs := make([]Log, len(t.Logs))
	hs := t.Cfg.HashSize()
	for i := range t.Logs {
		logs[i] = NormLog(t.Logs[i], hs, t.Cfg.ExactLog)
	}
	return refs, logs
}

// NormLog applies the documented normalisation to one log record.
func NormLog(in Log, hs int, exact bool) Log {
	l := in.Clone()
	if l.Del {
		return Log{Name: l.Name, UI: l.UI, Del: true}
	}
	if l.Old == nil {
		l.Old = make([]byte, hs)
	}
	if l.New == nil {
		l.New = make([]byte, hs)
	}
	l.Msg = NormMsg(l.Msg, exact)
	return l
}

// genHugeBlock: one block of 1-2 MB holding more than 65535 tiny records with a restart
// at every record (restart interval 1 or keys without shared prefix): the restart count
// field is 16 bits wide.
func genHugeBlock(r *Rng, idx int) *Table {
	t := &Table{}
	c := &t.Cfg
	c.SHA256 = idx%2 == 1
	c.BlockSize = uint32(1<<20 + r.Intn(1<<20))
	c.Restart = 1
	c.Unaligned = r.Chance(0.5)
	c.SkipIndexObjects = true
	c.SetLimits, c.Min, c.Max = true, 3, 3
	n := 66000 + r.Intn(6000)
	const digits = "0123456789abcdefghijklmnopqrstuvwxyz"
	for i := 0; i < n; i++ {
		x := i * 17 // spread, stays ascending
		name := []byte{digits[(x/46656)%36], digits[(x/1296)%36], digits[(x/36)%36], digits[x%36]}
		if x >= 36*36*36*36 {
			break
		}
		t.Refs = append(t.Refs, Ref{Name: string(name), UI: 3, Kind: KDel})
	}
	t.Note = fmt.Sprintf("idx=%d huge single block: %d deletion refs, restart interval 1", idx, len(t.Refs))
	return t
}
