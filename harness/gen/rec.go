// Package gen holds the harness's own representation of records, the canonical dump,
// and the deterministic generators. It does not import the code under test.
package gen

import (
	"bytes"
	"encoding/hex"
	"fmt"
	"sort"
	"strconv"
	"strings"
)

// Ref kinds.
const (
	KDel    = 0
	KVal    = 1
	KPeeled = 2
	KSym    = 3
)

type Ref struct {
	Name   string
	UI     uint64
	Kind   int
	Value  []byte
	Peeled []byte
	Target string
}

type Log struct {
	Name  string
	UI    uint64
	Del   bool
	Old   []byte // nil = absent (reads back as zeros)
	New   []byte
	User  string
	Email string
	Time  uint64
	TZ    int16
	Msg   string
	// Fut (harness only): a new entry of a transaction is filed under the
	// transaction's update index plus Fut
	Fut uint64
}

// LogKey orders logs: name ascending, update index descending.
func LogLess(a, b *Log) bool {
	if a.Name != b.Name {
		// log key is name NUL revui; names never contain NUL so plain comparison of
		// name+"\x00" is the key order.
		return a.Name+"\x00" < b.Name+"\x00"
	}
	return a.UI > b.UI
}

func esc(s string) string { return strconv.Quote(s) }

func (r *Ref) Line() string {
	switch r.Kind {
	case KDel:
		return fmt.Sprintf("ref %s %d del", esc(r.Name), r.UI)
	case KVal:
		return fmt.Sprintf("ref %s %d val %s", esc(r.Name), r.UI, hex.EncodeToString(r.Value))
	case KPeeled:
		return fmt.Sprintf("ref %s %d peeled %s %s", esc(r.Name), r.UI, hex.EncodeToString(r.Value), hex.EncodeToString(r.Peeled))
	case KSym:
		return fmt.Sprintf("ref %s %d sym %s", esc(r.Name), r.UI, esc(r.Target))
	}
	return fmt.Sprintf("ref %s %d kind?%d", esc(r.Name), r.UI, r.Kind)
}

func (l *Log) Line() string {
	if l.Del {
		return fmt.Sprintf("log %s %d del", esc(l.Name), l.UI)
	}
	return fmt.Sprintf("log %s %d %s %s %s %s %d %d %s", esc(l.Name), l.UI,
		hex.EncodeToString(l.Old), hex.EncodeToString(l.New), esc(l.User), esc(l.Email), l.Time, l.TZ, esc(l.Msg))
}

func (r *Ref) Equal(o *Ref) bool {
	return r.Name == o.Name && r.UI == o.UI && r.Kind == o.Kind && bytes.Equal(r.Value, o.Value) &&
		bytes.Equal(r.Peeled, o.Peeled) && r.Target == o.Target
}

func (l *Log) Equal(o *Log) bool {
	return l.Name == o.Name && l.UI == o.UI && l.Del == o.Del && bytes.Equal(l.Old, o.Old) && bytes.Equal(l.New, o.New) &&
		l.User == o.User && l.Email == o.Email && l.Time == o.Time && l.TZ == o.TZ && l.Msg == o.Msg
}

func (r Ref) Clone() Ref {
	r.Value = append([]byte(nil), r.Value...)
	if len(r.Value) == 0 {
		r.Value = nil
	}
	r.Peeled = append([]byte(nil), r.Peeled...)
	if len(r.Peeled) == 0 {
		r.Peeled = nil
	}
	return r
}

func (l Log) Clone() Log {
	if l.Old != nil {
		l.Old = append([]byte{}, l.Old...)
	}
	if l.New != nil {
		l.New = append([]byte{}, l.New...)
	}
	return l
}

// Dump renders refs and logs, one line per record.
func Dump(refs []Ref, logs []Log) string {
	var sb strings.Builder
	for i := range refs {
		sb.WriteString(refs[i].Line())
		sb.WriteByte('\n')
	}
	for i := range logs {
		sb.WriteString(logs[i].Line())
		sb.WriteByte('\n')
	}
	return sb.String()
}

// DiffLines returns a short description of the first difference of two dumps.
func DiffLines(want, got string) string {
	w := strings.Split(want, "\n")
	g := strings.Split(got, "\n")
	for i := 0; i < len(w) || i < len(g); i++ {
		var a, b string
		if i < len(w) {
			a = w[i]
		}
		if i < len(g) {
			b = g[i]
		}
		if a != b {
			return fmt.Sprintf("line %d: want %s | got %s (want %d lines, got %d)", i, trunc(a), trunc(b), len(w), len(g))
		}
	}
	return ""
}

func trunc(s string) string {
	if len(s) > 220 {
		return s[:220] + "..."
	}
	if s == "" {
		return "<none>"
	}
	return s
}

func SortRefs(r []Ref) { sort.SliceStable(r, func(i, j int) bool { return r[i].Name < r[j].Name }) }
func SortLogs(l []Log) { sort.SliceStable(l, func(i, j int) bool { return LogLess(&l[i], &l[j]) }) }

// ParseDump parses the canonical dump format (used for the exchange with the C driver).
func ParseDump(s string) (refs []Ref, logs []Log, err error) {
	for ln, line := range strings.Split(s, "\n") {
		if line == "" {
			continue
		}
		f, e := splitFields(line)
		if e != nil {
			return nil, nil, fmt.Errorf("line %d: %v", ln+1, e)
		}
		if len(f) < 4 {
			return nil, nil, fmt.Errorf("line %d: short", ln+1)
		}
		ui, e := strconv.ParseUint(f[2], 10, 64)
		if e != nil {
			return nil, nil, fmt.Errorf("line %d: %v", ln+1, e)
		}
		switch f[0] {
		case "ref":
			r := Ref{Name: f[1], UI: ui}
			switch f[3] {
			case "del":
			case "val":
				r.Kind = KVal
				r.Value, _ = hex.DecodeString(f[4])
			case "peeled":
				r.Kind = KPeeled
				r.Value, _ = hex.DecodeString(f[4])
				r.Peeled, _ = hex.DecodeString(f[5])
			case "sym":
				r.Kind = KSym
				r.Target = f[4]
			default:
				return nil, nil, fmt.Errorf("line %d: kind %q", ln+1, f[3])
			}
			refs = append(refs, r)
		case "log":
			l := Log{Name: f[1], UI: ui}
			if f[3] == "del" {
				l.Del = true
			} else {
				if len(f) != 10 {
					return nil, nil, fmt.Errorf("line %d: want 10 fields, got %d", ln+1, len(f))
				}
				l.Old, _ = hex.DecodeString(f[3])
				l.New, _ = hex.DecodeString(f[4])
				l.User, l.Email = f[5], f[6]
				l.Time, _ = strconv.ParseUint(f[7], 10, 64)
				tz, _ := strconv.ParseInt(f[8], 10, 16)
				l.TZ = int16(tz)
				l.Msg = f[9]
			}
			logs = append(logs, l)
		default:
			return nil, nil, fmt.Errorf("line %d: %q", ln+1, f[0])
		}
	}
	return
}

// splitFields splits on blanks, honouring Go-quoted strings.
func splitFields(line string) ([]string, error) {
	var out []string
	i := 0
	for i < len(line) {
		if line[i] == ' ' {
			i++
			continue
		}
		if line[i] == '"' {
			j := i + 1
			for j < len(line) {
				if line[j] == '\\' {
					j += 2
					continue
				}
				if line[j] == '"' {
					break
				}
				j++
			}
			if j >= len(line) {
				return nil, fmt.Errorf("unterminated quote")
			}
			s, err := strconv.Unquote(line[i : j+1])
			if err != nil {
				return nil, err
			}
			out = append(out, s)
			i = j + 1
			continue
		}
		j := i
		for j < len(line) && line[j] != ' ' {
			j++
		}
		out = append(out, line[i:j])
		i = j
	}
	return out, nil
}
