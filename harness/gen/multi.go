package gen

import (
	"fmt"
	"sort"
)

// TableSet is a sequence of tables with increasing update-index ranges over a small,
// overlapping key alphabet (inputs of a merged view).
type TableSet struct {
	Tables []*Table
	Names  []string
	Pool   *HashPool
	Note   string
}

// GenTableSet generates the idx-th table set of a seed.
func GenTableSet(seed int64, idx int) *TableSet {
	r := NewRng(Mix(seed^0x3e7, int64(idx)))
	ts := &TableSet{}
	k := 1 + r.Intn(6)
	if idx%7 == 3 {
		// wide stacks (the merge heap, its seeding and its tie-breaks at 7..30 inputs)
		k = 7 + r.Intn(24)
	}
	sha256 := idx%2 == 1
	hs := 20
	if sha256 {
		hs = 32
	}
	nnames := []int{2, 5, 12, 40, 120}[r.Intn(5)]
	if k > 6 && nnames > 40 {
		nnames = 40
	}
	style := NameStyle(r.Intn(4))
	ts.Names = r.Names(nnames, style)
	pool := r.NewPool(hs, []int{1, 2, 4, 12}[r.Intn(4)])
	ts.Pool = pool
	base := Cfg{SHA256: sha256}
	base.BlockSize = []uint32{0, 128, 160, 256, 512, 4096}[r.Intn(6)]
	if sha256 && base.BlockSize != 0 && base.BlockSize < 200 {
		base.BlockSize = 256
	}
	base.Restart = restarts[r.Intn(len(restarts))]
	base.Unaligned = r.Chance(0.3)
	base.SkipIndexObjects = r.Chance(0.3)
	base.ExactLog = r.Chance(0.3)

	next := uint64(r.Intn(3))
	if r.Chance(0.1) {
		next = 1 << 40
	}
	type lkey struct {
		name string
		ui   uint64
	}
	var oldLogKeys []lkey
	delP := []float64{0.1, 0.3, 0.6}[r.Intn(3)]
	for ti := 0; ti < k; ti++ {
		t := &Table{Cfg: base}
		span := uint64([]int{0, 0, 1, 3, 10}[r.Intn(5)])
		t.Cfg.SetLimits, t.Cfg.Min, t.Cfg.Max = true, next, next+span
		next += span + 1 + uint64(r.Intn(2))
		// refs: a subset of the names
		density := []float64{0.2, 0.5, 0.9, 1.0}[r.Intn(4)]
		for _, n := range ts.Names {
			if !r.Chance(density) {
				continue
			}
			t.Refs = append(t.Refs, r.GenRef(n, r.pickUI(t.Cfg.Min, t.Cfg.Max), hs, pool, delP))
		}
		// logs
		seen := map[lkey]bool{}
		if r.Chance(0.8) {
			for _, n := range ts.Names {
				if !r.Chance(density * 0.7) {
					continue
				}
				cnt := 1 + r.Intn(2)
				for j := 0; j < cnt; j++ {
					u := r.pickUI(t.Cfg.Min, t.Cfg.Max)
					if seen[lkey{n, u}] {
						continue
					}
					seen[lkey{n, u}] = true
					if r.Chance(0.1) {
						t.Logs = append(t.Logs, Log{Name: n, UI: u, Del: true})
					} else {
						t.Logs = append(t.Logs, r.GenLog(n, u, hs, pool, base.ExactLog))
					}
				}
			}
			// tombstones / rewrites of log entries of older tables (same key, newer table)
			for _, ok := range oldLogKeys {
				if r.Chance(0.25) && !seen[ok] {
					seen[ok] = true
					if r.Chance(0.7) {
						t.Logs = append(t.Logs, Log{Name: ok.name, UI: ok.ui, Del: true})
					} else {
						t.Logs = append(t.Logs, r.GenLog(ok.name, ok.ui, hs, pool, base.ExactLog))
					}
				}
			}
		}
		for k := range seen {
			oldLogKeys = append(oldLogKeys, k)
		}
		sort.Slice(oldLogKeys, func(i, j int) bool {
			if oldLogKeys[i].name != oldLogKeys[j].name {
				return oldLogKeys[i].name < oldLogKeys[j].name
			}
			return oldLogKeys[i].ui < oldLogKeys[j].ui
		})
		SortLogs(t.Logs)
		// make records fit
		need := 0
		for i := range t.Refs {
			if n := refSize(&t.Refs[i], hs); n > need {
				need = n
			}
		}
		for i := range t.Logs {
			if n := logSize(&t.Logs[i], hs); n > need {
				need = n
			}
		}
		need += 28 + 4 + 5 + 8
		if t.Cfg.EffBlockSize() < need {
			t.Cfg.BlockSize = uint32(need + 16)
		}
		if len(t.Refs)+len(t.Logs) == 0 {
			// an empty table cannot be part of a stack; give it one ref
			t.Refs = append(t.Refs, r.GenRef(ts.Names[0], t.Cfg.Min, hs, pool, delP))
		}
		t.Note = fmt.Sprintf("set=%d table=%d/%d", idx, ti, k)
		ts.Tables = append(ts.Tables, t)
	}
	ts.Note = fmt.Sprintf("set idx=%d tables=%d names=%d %s", idx, k, len(ts.Names), base.String())
	return ts
}

// Overlay computes the newest-wins overlay of the expected records of the tables.
// raw=true keeps deletion records, raw=false hides them (the stack's view).
func Overlay(tables []*Table, raw bool) ([]Ref, []Log) {
	refs := map[string]Ref{}
	type lk struct {
		name string
		ui   uint64
	}
	logs := map[lk]Log{}
	for _, t := range tables {
		er, el := t.Expected()
		for _, r := range er {
			refs[r.Name] = r
		}
		for _, l := range el {
			logs[lk{l.Name, l.UI}] = l
		}
	}
	var outR []Ref
	for _, r := range refs {
		if !raw && r.Kind == KDel {
			continue
		}
		outR = append(outR, r)
	}
	SortRefs(outR)
	var outL []Log
	for _, l := range logs {
		if !raw && l.Del {
			continue
		}
		outL = append(outL, l)
	}
	SortLogs(outL)
	return outR, outL
}

// RefsFor filters a ref list for an object id.
func RefsFor(refs []Ref, oid []byte) []Ref {
	var out []Ref
	for _, r := range refs {
		if r.Kind == KDel || r.Kind == KSym {
			continue
		}
		if string(r.Value) == string(oid) || (r.Kind == KPeeled && string(r.Peeled) == string(oid)) {
			out = append(out, r)
		}
	}
	return out
}
