package gen

import (
	"encoding/binary"
	"fmt"
	"sort"
	"strings"
)

// Txn is one transaction against a stack. Update indices of its refs and of its new log
// entries are assigned when it is written (the stack's next update index); log
// tombstones keep the update index of the entry they delete.
type Txn struct {
	ID   int
	Refs []Ref
	Logs []Log // new entries (UI==0 placeholder) and tombstones (Del, UI = target)
	Note string
}

type LogKey struct {
	Name string
	UI   uint64
}

// Model is the reference model of a stack's content (tombstones included).
type Model struct {
	Refs map[string]Ref
	Logs map[LogKey]Log
	// Applied transaction ids in commit order.
	Journal []int
	HS      int
	Exact   bool
}

func NewModel(hs int, exact bool) *Model {
	return &Model{Refs: map[string]Ref{}, Logs: map[LogKey]Log{}, HS: hs, Exact: exact}
}

func (m *Model) Clone() *Model {
	n := NewModel(m.HS, m.Exact)
	for k, v := range m.Refs {
		n.Refs[k] = v
	}
	for k, v := range m.Logs {
		n.Logs[k] = v
	}
	n.Journal = append([]int(nil), m.Journal...)
	return n
}

// Apply overlays a transaction written at update index ui.
func (m *Model) Apply(t *Txn, ui uint64) {
	for _, r := range t.Refs {
		r = r.Clone()
		r.UI = ui
		m.Refs[r.Name] = r
	}
	for _, l := range t.effectiveLogs(ui) {
		l = NormLog(l, m.HS, m.Exact)
		m.Logs[LogKey{l.Name, l.UI}] = l
	}
	m.Journal = append(m.Journal, t.ID)
}

// View returns what a reader of the stack must see (tombstones hidden).
func (m *Model) View() ([]Ref, []Log) {
	var refs []Ref
	for _, r := range m.Refs {
		if r.Kind != KDel {
			refs = append(refs, r)
		}
	}
	SortRefs(refs)
	var logs []Log
	for _, l := range m.Logs {
		if !l.Del {
			logs = append(logs, l)
		}
	}
	SortLogs(logs)
	return refs, logs
}

func (m *Model) Dump() string {
	r, l := m.View()
	return Dump(r, l)
}

// LiveNames returns the live ref names.
func (m *Model) LiveNames() []string {
	var out []string
	for n, r := range m.Refs {
		if r.Kind != KDel {
			out = append(out, n)
		}
	}
	sort.Strings(out)
	return out
}

// IDHash encodes a transaction id (and a salt) into an object id.
func IDHash(id, salt, hs int) []byte {
	h := make([]byte, hs)
	binary.BigEndian.PutUint32(h[0:], uint32(id))
	binary.BigEndian.PutUint32(h[4:], uint32(salt))
	for i := 8; i < hs; i++ {
		h[i] = byte(id*7 + i)
	}
	return h
}

// TxnIDOfMsg extracts the id from a log message "t<id> ...".
func TxnIDOfMsg(msg string) (int, bool) {
	var id int
	if _, err := fmt.Sscanf(msg, "t%d", &id); err != nil {
		return 0, false
	}
	return id, true
}

const JournalRef = "refs/journal"

// TxnOpts steers the transaction generator.
type TxnOpts struct {
	Keys      []string // alphabet of ref names (must be conflict free among themselves)
	MaxRefs   int
	Journal   bool    // every txn also updates JournalRef (+ log entry)
	DelP      float64 // probability that a touched live ref is deleted
	LogTombP  float64 // probability of adding a log tombstone for an existing entry
	Filler    int     // extra refs refs/filler/<id>/<n> to vary table sizes
	RichLogs  bool    // varied log fields (else fixed small fields)
	SymP      float64
	PeeledP   float64
	NoLogs    bool // refs only (lets a full compaction end in an empty table)
	LogFutP   float64 // probability that a new log entry is filed under a later update index than its table's
}

// GenTxn generates transaction id against the current model state.
func GenTxn(r *Rng, id int, m *Model, o TxnOpts) *Txn {
	t := &Txn{ID: id}
	hs := m.HS
	touched := map[string]bool{}
	n := 1
	if o.MaxRefs > 1 {
		n = 1 + r.Intn(o.MaxRefs)
	}
	msg := fmt.Sprintf("t%d", id)
	addLog := func(name string, old, nw []byte) {
		if o.NoLogs {
			return
		}
		l := Log{Name: name, Old: old, New: nw, User: "u", Email: "e@x", Time: 1000 + uint64(id), TZ: 60, Msg: msg}
		if o.RichLogs {
			g := r.GenLog(name, 0, hs, &HashPool{size: hs, r: r}, m.Exact)
			g.Msg = msg + " " + strings.TrimRight(strings.ReplaceAll(g.Msg, "\n", " "), " ")
			if m.Exact && r.Chance(0.3) {
				g.Msg += "\nsecond line"
			}
			g.Old, g.New = old, nw
			l = g
		}
		if o.LogFutP > 0 && r.Chance(o.LogFutP) {
			l.Fut = 1 + uint64(r.Intn(3))
		}
		t.Logs = append(t.Logs, l)
	}
	for i := 0; i < n && len(o.Keys) > 0; i++ {
		name := o.Keys[r.Intn(len(o.Keys))]
		if touched[name] {
			continue
		}
		touched[name] = true
		cur, live := m.Refs[name]
		live = live && cur.Kind != KDel
		var old []byte
		if live && cur.Value != nil {
			old = cur.Value
		}
		ref := Ref{Name: name}
		x := r.Float64()
		switch {
		case live && x < o.DelP:
			ref.Kind = KDel
			addLog(name, old, nil)
		case x < o.DelP+o.SymP:
			ref.Kind = KSym
			ref.Target = o.Keys[r.Intn(len(o.Keys))]
			addLog(name, old, nil)
		case x < o.DelP+o.SymP+o.PeeledP:
			ref.Kind = KPeeled
			ref.Value = IDHash(id, i, hs)
			ref.Peeled = IDHash(id, 1000+i, hs)
			addLog(name, old, ref.Value)
		default:
			ref.Kind = KVal
			ref.Value = IDHash(id, i, hs)
			addLog(name, old, ref.Value)
		}
		t.Refs = append(t.Refs, ref)
	}
	if o.Journal {
		v := IDHash(id, 999, hs)
		t.Refs = append(t.Refs, Ref{Name: JournalRef, Kind: KVal, Value: v})
		// the journal's entries carry a time beyond any expiry limit used by the workloads
		t.Logs = append(t.Logs, Log{Name: JournalRef, New: v, User: "j", Email: "j@x", Time: 1<<40 + uint64(id), Msg: msg})
	}
	for i := 0; i < o.Filler; i++ {
		nm := fmt.Sprintf("refs/filler/%06d/%04d", id, i)
		t.Refs = append(t.Refs, Ref{Name: nm, Kind: KVal, Value: IDHash(id, 2000+i, hs)})
	}
	if o.LogTombP > 0 && r.Chance(o.LogTombP) && len(m.Logs) > 0 {
		// delete an existing (live) log entry
		var keys []LogKey
		for k, l := range m.Logs {
			if !l.Del && k.Name != JournalRef {
				keys = append(keys, k)
			}
		}
		sort.Slice(keys, func(i, j int) bool {
			if keys[i].Name != keys[j].Name {
				return keys[i].Name < keys[j].Name
			}
			return keys[i].UI < keys[j].UI
		})
		if len(keys) > 0 {
			k := keys[r.Intn(len(keys))]
			t.Logs = append(t.Logs, Log{Name: k.Name, UI: k.UI, Del: true})
		}
	}
	SortRefs(t.Refs)
	return t
}

// Materialize returns the records to hand to the writer for update index ui, in key order.
func (t *Txn) Materialize(ui uint64) ([]Ref, []Log) {
	refs := make([]Ref, len(t.Refs))
	for i, r := range t.Refs {
		r = r.Clone()
		r.UI = ui
		refs[i] = r
	}
	SortRefs(refs)
	logs := t.effectiveLogs(ui)
	SortLogs(logs)
	return refs, logs
}

// effectiveLogs resolves the update indices of the transaction's log records for update
// index ui. A tombstone aimed at an existing entry that was filed under a future index
// can coincide with a new entry of this very transaction (same name, same index): one
// table cannot hold both, the new entry wins and the tombstone is dropped - identically
// for the writer input and for the model.
func (t *Txn) effectiveLogs(ui uint64) []Log {
	fresh := map[LogKey]bool{}
	for _, l := range t.Logs {
		if !l.Del {
			fresh[LogKey{l.Name, ui + l.Fut}] = true
		}
	}
	out := make([]Log, 0, len(t.Logs))
	for _, l := range t.Logs {
		l = l.Clone()
		if !l.Del {
			l.UI = ui + l.Fut
		} else if fresh[LogKey{l.Name, l.UI}] {
			continue
		}
		l.Fut = 0
		out = append(out, l)
	}
	return out
}

// FlatKeys returns n conflict-free ref names.
func FlatKeys(n int) []string {
	out := make([]string, n)
	for i := range out {
		out[i] = fmt.Sprintf("refs/heads/k%02d", i)
	}
	return out
}
