module verif/harness

go 1.16

require (
	github.com/anishathalye/porcupine v1.3.0
	github.com/google/reftable v0.0.0
)

replace github.com/google/reftable => ../rt
