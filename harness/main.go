// harness runs one shard of one property check against the rewritten scratch copy of
// the reftable working tree it was built with.
package main

import (
	"flag"
	"fmt"
	"os"
	"runtime"
	"runtime/pprof"

	"verif/harness/props"
	"verif/harness/rep"
)

var runners = map[string]func(*props.Ctx){}

func main() {
	prop := flag.String("prop", "", "property id")
	seed := flag.Int64("seed", 1, "seed")
	tier := flag.String("tier", "quick", "quick|thorough")
	shard := flag.Int("shard", 0, "shard index")
	nshards := flag.Int("nshards", 1, "number of shards")
	only := flag.Int("only", -1, "run only this case index")
	out := flag.String("out", ".", "output directory")
	work := flag.String("work", "", "scratch directory")
	scale := flag.Float64("scale", 1, "case count multiplier")
	verbose := flag.Bool("v", false, "verbose")
	memprof := flag.String("memprofile", "", "write an allocation profile")
	flag.Parse()
	if *memprof != "" {
		runtime.MemProfileRate = 4096
		defer func() {
			f, _ := os.Create(*memprof)
			pprof.Lookup("allocs").WriteTo(f, 0)
			f.Close()
		}()
	}
	props.Register(runners)
	run, ok := runners[*prop]
	if !ok {
		fmt.Fprintf(os.Stderr, "unknown property %q\n", *prop)
		os.Exit(2)
	}
	if *work == "" {
		*work = *out
	}
	c := &props.Ctx{Prop: *prop, Seed: *seed, Tier: *tier, Shard: *shard, NShards: *nshards, Only: *only, Work: *work,
		Rep: rep.New(*prop, *shard), Verbose: *verbose, Scale: *scale}
	run(c)
	if err := c.Rep.Write(*out); err != nil {
		fmt.Fprintln(os.Stderr, "write report:", err)
		os.Exit(2)
	}
}
