package props

import (
	"encoding/binary"
	"hash/crc32"
	"testing"
)

// repairFooter copies the header into the footer and recomputes the CRC so that the
// fuzzer's mutations get past NewReader's only checksum.
func repairFooter(d []byte) []byte {
	if len(d) < 24+68 {
		return d
	}
	out := append([]byte(nil), d...)
	hs, fs := 24, 68
	if out[4] == 2 {
		hs, fs = 28, 72
	}
	if len(out) < hs+fs {
		return out
	}
	f := out[len(out)-fs:]
	copy(f[:hs], out[:hs])
	binary.BigEndian.PutUint32(f[fs-4:], crc32.ChecksumIEEE(f[:fs-4]))
	return out
}

// FuzzReader is the coverage-guided part of C18 (thorough tier): the same probe as the
// mutation run, driven by Go's native fuzzer with an execution-count budget.
func FuzzReader(f *testing.F) {
	bases := c18Bases(1)
	for _, b := range bases {
		if len(b.data) < 6000 {
			f.Add(b.data)
		}
	}
	names := []string{"refs/heads/main", "a", "HEAD"}
	f.Fuzz(func(t *testing.T, data []byte) {
		if len(data) > 1<<15 {
			return
		}
		for _, in := range [][]byte{data, repairFooter(data)} {
			res := probeInput(0, in, names, nil, nil)
			if len(res.Findings) > 0 {
				t.Fatalf("FINDING %s\n%s", res.Findings[0], res.Detail)
			}
		}
	})
}
