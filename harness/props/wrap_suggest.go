//go:build have_suggest

package props

import "github.com/google/reftable"

const haveSuggest = true

func suggestSegment(sizes []uint64) (int, int, bool) { return reftable.VerifSuggestSegment(sizes) }
