//go:build have_compactrange

package props

import (
	"github.com/google/reftable"
	"verif/harness/eng"
)

const haveCompactRange = true

func compactRange(st *reftable.Stack, first, last int) (bool, error) {
	return st.VerifCompactRange(first, last)
}

func init() {
	eng.CompactRange = func(st *reftable.Stack, first, last int) (bool, error) { return st.VerifCompactRange(first, last) }
}
