//go:build !have_suggest

package props

const haveSuggest = false

func suggestSegment(sizes []uint64) (int, int, bool) { return 0, 0, false }
