package props

import (
	"fmt"
	"math"
	"math/bits"
	"os"
	"path/filepath"

	"github.com/google/reftable"
	"verif/harness/gen"
	"verif/harness/rep"
	"verif/harness/rtx"
	"verif/harness/stx"
)

func flog2(x uint64) int {
	if x == 0 {
		return 0
	}
	return bits.Len64(x) - 1
}

// chooserOracle: nil <=> no two adjacent sizes share floor(log2).
func adjacentSameClass(sizes []uint64) bool {
	for i := 1; i < len(sizes); i++ {
		if flog2(sizes[i]) == flog2(sizes[i-1]) {
			return true
		}
	}
	return false
}

func checkVector(c *Ctx, sizes []uint64) {
	r := c.Rep
	r.Evaluations++
	var start, end int
	var ok bool
	err := rtx.Safe(func() error {
		start, end, ok = suggestSegment(sizes)
		return nil
	})
	cs := map[string]interface{}{"prop": "C17", "kind": "size-vector", "sizes": sizes}
	if err != nil {
		r.Violate([]string{"C17"}, "chooser-"+PanicSig(err), fmt.Sprintf("suggestCompactionSegment(%v) panicked: %s", sizes, PanicDetail(err)), cs)
		return
	}
	want := adjacentSameClass(sizes)
	switch {
	case ok && !want:
		r.Violate([]string{"C17"}, "chooser-suggests-without-equal-class-neighbours", fmt.Sprintf("sizes %v: suggested [%d,%d) although no two adjacent tables share a size class", sizes, start, end), cs)
	case !ok && want:
		r.Violate([]string{"C17"}, "chooser-nothing-to-do-despite-equal-class-neighbours", fmt.Sprintf("sizes %v: nothing suggested although two adjacent tables share a size class", sizes), cs)
	case ok && (start < 0 || end > len(sizes) || end-start < 2):
		r.Violate([]string{"C17"}, "chooser-invalid-range", fmt.Sprintf("sizes %v: suggested [%d,%d)", sizes, start, end), cs)
	}
	if want {
		r.Nontrivial(rep.Hash("vec", fmt.Sprint(sizes)))
	}
}

// RunC17: auto-compaction picks a valid range, makes progress, keeps the stack shallow.
func RunC17(c *Ctx) {
	r := c.Rep
	r.Rule = "(a) case = one table-size vector given to the segment chooser: every vector of length <= L over representative sizes (two points per power-of-two class) plus random longer ones; oracle = the three stated conditions. (b) case = one Add of a single-writer workload of N transactions producing tables of identical byte size (measured from the files): afterwards depth <= 2*log2(n) and entries rewritten <= n*log2(n)*entries-per-transaction (real-valued log2, as the property states it), and every auto-compaction strictly reduced the table count over a contiguous range. distinct = vector / (workload, n); non-trivial = the vector has two adjacent tables of one class / a compaction ran during the Add"
	// ---- (a) chooser
	if haveSuggest {
		pts := []uint64{1, 2, 3, 4, 7, 8, 15, 1000, 1023, 1024, 70000}
		maxLen := 5
		if c.Thorough() {
			maxLen = 6
		}
		total := 0
		var rec func(prefix []uint64)
		rec = func(prefix []uint64) {
			if len(prefix) >= 1 {
				if c.Mine(total) || c.Only >= 0 {
					checkVector(c, append([]uint64(nil), prefix...))
				}
				total++
			}
			if len(prefix) == maxLen {
				return
			}
			for _, p := range pts {
				rec(append(prefix, p))
			}
		}
		if c.Only < 0 {
			rec(nil)
			r.Count("size_vectors_enumerated", 1) // marker; merged as sum over shards
		}
		rng := gen.NewRng(gen.Mix(c.Seed^0xc17, int64(c.Shard)))
		nrand := c.N(20000, 400000) / c.NShards
		for i := 0; i < nrand && c.Only < 0; i++ {
			n := 1 + rng.Intn(24)
			v := make([]uint64, n)
			for j := range v {
				switch rng.Intn(4) {
				case 0:
					v[j] = 1 + uint64(rng.Intn(16))
				case 1:
					v[j] = 1 << uint(rng.Intn(40))
				case 2:
					v[j] = (1 << uint(rng.Intn(40))) - 1 + uint64(rng.Intn(2))
				default:
					v[j] = 1 + uint64(rng.Int63n(1<<30))
				}
				if i%4 == 3 {
					// the whole 64-bit range, dense around the class boundaries
					switch rng.Intn(3) {
					case 0:
						v[j] = (uint64(1) << uint(rng.Intn(64))) + uint64(rng.Intn(7)) - 3
					case 1:
						v[j] = rng.Uint64() >> uint(rng.Intn(64))
					default:
						v[j] = math.MaxUint64 - uint64(rng.Intn(3))
					}
				}
				if v[j] == 0 {
					v[j] = 1
				}
			}
			checkVector(c, v)
		}
	} else {
		r.Note("export wrapper for suggestCompactionSegment does not compile on this tree: chooser checked only through real stacks")
	}
	// ---- (c) real stacks around class boundaries
	runC17Stacks(c)
	// ---- (b) workloads
	nw := len(c17Fixed) + c.N(12, 60)
	for w := 0; w < nw; w++ {
		if !c.Mine(w) {
			continue
		}
		runC17Workload(c, w)
	}
}

type c17Params struct {
	N          int
	gcfg       gen.Cfg
	refsPer    int
	withLogs   bool
	rewrite    bool
	constant   bool
	kind       int
	nameLen    int
}

// c17Fixed are fixed workloads that reproduce the known findings deterministically.
var c17Fixed = []c17Params{
	{N: 40, refsPer: 1, withLogs: true, kind: 0, nameLen: 20},                                  // small-N excess, fresh names
	{N: 40, refsPer: 1, withLogs: true, rewrite: true, kind: 0, nameLen: 20},                   // small-N excess, rewritten names
	{N: 300, refsPer: 1, withLogs: true, rewrite: true, constant: true, kind: 0, nameLen: 20}, // quadratic re-merging
	{N: 300, refsPer: 5, withLogs: true, rewrite: true, constant: true, kind: 2, nameLen: 30},
	// identical-size transactions that are all deletions: every compaction that starts at
	// the oldest table cancels out completely (its result is empty)
	{N: 200, refsPer: 1, kind: 3, nameLen: 24},
	{N: 200, refsPer: 3, kind: 3, nameLen: 30, gcfg: gen.Cfg{SHA256: true, BlockSize: 512}},
}

func runC17Workload(c *Ctx, w int) {
	rng := gen.NewRng(gen.Mix(c.Seed^0x17b, int64(w)))
	var p c17Params
	if w < len(c17Fixed) {
		p = c17Fixed[w]
	} else {
		p.N = c.N(600, 4000)
		p.gcfg = gen.Cfg{SHA256: w%2 == 1}
		p.gcfg.BlockSize = []uint32{0, 0, 512, 1024}[rng.Intn(4)]
		p.gcfg.Unaligned = rng.Chance(0.3)
		p.gcfg.SkipIndexObjects = rng.Chance(0.3)
		p.refsPer = []int{1, 1, 2, 5, 10}[rng.Intn(5)]
		p.withLogs = rng.Chance(0.5)
		p.rewrite = rng.Chance(0.4)                // rewrite the same names instead of fresh ones
		p.constant = p.rewrite && rng.Chance(0.6) // identical content in every transaction (only the update index differs)
		p.kind = rng.Intn(3)                       // 0 value, 1 symref, 2 peeled
		p.nameLen = 8 + rng.Intn(40)
	}
	runC17WorkloadP(c, w, p)
}

func runC17WorkloadP(c *Ctx, w int, p c17Params) {
	r := c.Rep
	N, gcfg, refsPer, withLogs, rewrite, constant, kind, nameLen := p.N, p.gcfg, p.refsPer, p.withLogs, p.rewrite, p.constant, p.kind, p.nameLen
	cfg := rtx.Config(gcfg)
	hs := gcfg.HashSize()
	dir := c.TempDir(fmt.Sprintf("c17-%d", w))
	defer os.RemoveAll(dir)
	desc := fmt.Sprintf("workload %d: N=%d refs/txn=%d logs=%v rewrite=%v constant=%v kind=%d namelen=%d %s", w, N, refsPer, withLogs, rewrite, constant, kind, nameLen, gcfg.String())
	cs := map[string]interface{}{"prop": "C17", "kind": "workload", "seed": c.Seed, "index": w, "desc": desc}
	st, err := stx.Open(dir, cfg)
	if err != nil {
		r.Violate([]string{"C05"}, "open-failed", err.Error(), cs)
		return
	}
	defer func() { stx.SafeClose(st) }()
	entriesPer := refsPer
	if withLogs {
		entriesPer *= 2
	}
	pad := func(s string) string {
		for len(s) < nameLen {
			s += "x"
		}
		return s
	}
	var firstSize int64 = -1
	maxRatioDepth, maxRatioEntries := 0.0, 0.0
	for n := 1; n <= N; n++ {
		t := &gen.Txn{ID: n}
		for j := 0; j < refsPer; j++ {
			var name string
			if rewrite {
				name = pad(fmt.Sprintf("refs/heads/b%02d", j))
			} else {
				name = pad(fmt.Sprintf("refs/heads/n%07d-%02d", n, j))
			}
			ref := gen.Ref{Name: name}
			cn := n // content id
			if constant {
				cn = 1
			}
			switch kind {
			case 0:
				ref.Kind, ref.Value = gen.KVal, gen.IDHash(cn, j, hs)
			case 3:
				ref.Kind = gen.KDel
			case 1:
				ref.Kind, ref.Target = gen.KSym, "refs/heads/some-target-of-fixed-length"
			default:
				ref.Kind, ref.Value, ref.Peeled = gen.KPeeled, gen.IDHash(cn, j, hs), gen.IDHash(cn, 100+j, hs)
			}
			t.Refs = append(t.Refs, ref)
			if withLogs {
				t.Logs = append(t.Logs, gen.Log{Name: name, New: gen.IDHash(cn, j, hs), User: "u", Email: "e", Time: 1 << 30, Msg: "fixed message"})
			}
		}
		before := stx.Names(st)
		attemptsBefore, failuresBefore := st.Stats.Attempts, st.Stats.Failures
		// measure the size of the table this transaction produces: it is the only new
		// file if no compaction happens; otherwise measure through a side write
		ui, err := stx.Apply(st, t)
		r.Evaluations++
		if err != nil {
			r.Violate([]string{"C04"}, "workload-add-failed|"+errClass(err), fmt.Sprintf("%s: Add %d failed: %v %s", desc, n, err, PanicDetail(err)), cs)
			return
		}
		_ = ui
		after := stx.Names(st)
		ranCompaction := st.Stats.Attempts > attemptsBefore && st.Stats.Failures == failuresBefore
		if ranCompaction {
			// table count must strictly decrease relative to before+1, removed tables contiguous
			if len(after) >= len(before)+1 {
				r.Violate([]string{"C17"}, "autocompaction-no-progress", fmt.Sprintf("%s: after Add %d auto-compaction ran (attempts %d->%d) but the stack went from %d(+1) to %d tables", desc, n, attemptsBefore, st.Stats.Attempts, len(before), len(after)), cs)
				return
			}
			// contiguity: the surviving old tables are a prefix and a suffix of before+new
			if !contiguousRemoval(before, after) {
				r.Violate([]string{"C17"}, "autocompaction-non-contiguous", fmt.Sprintf("%s: after Add %d: before %v after %v", desc, n, before, after), cs)
				return
			}
			r.Nontrivial(rep.Hash("wl", fmt.Sprint(c.Seed), fmt.Sprint(w), fmt.Sprint(n)))
			r.Count("autocompactions", 1)
		} else if len(after) != len(before)+1 {
			r.Violate([]string{"C17"}, "table-count-changed-without-compaction", fmt.Sprintf("%s: Add %d: %d -> %d tables without a successful compaction", desc, n, len(before), len(after)), cs)
			return
		} else {
			// size of the freshly added table
			fi, err := os.Stat(filepath.Join(dir, after[len(after)-1]))
			if err == nil {
				if firstSize < 0 {
					firstSize = fi.Size()
				} else if fi.Size() != firstSize {
					// out of the property's domain (identical-size transactions)
					r.OutOfDomain++
					r.Note("workload %d produces tables of different sizes (%d vs %d): out of domain, dropped", w, firstSize, fi.Size())
					return
				}
			}
		}
		if n >= 2 {
			lg := math.Log2(float64(n))
			depth := len(after)
			if float64(depth) > 2*lg+1e-9 {
				r.Violate([]string{"C17"}, "depth-bound", fmt.Sprintf("%s: after %d transactions the stack is %d tables deep, bound 2*log2(n) = %.2f", desc, n, depth, 2*lg), cs)
				return
			}
			bound := float64(n) * lg * float64(entriesPer)
			if float64(st.Stats.EntriesWritten) > bound+1e-6 {
				ratio := float64(st.Stats.EntriesWritten) / bound
				if os.Getenv("VERIF_C17_TRACE") != "" {
					fmt.Printf("SHAPE refs=%d logs=%v rewrite=%v constant=%v kind=%d : w%d n=%d depth=%d entries=%d (%.3f of bound) sizes=%v\n", refsPer, withLogs, rewrite, constant, kind, w, n, depth, st.Stats.EntriesWritten, ratio, dirSizes(dir, after))
				}
				nb := "n>512"
				if n <= 4 {
					nb = "n<=4"
				} else if n <= 512 {
					nb = "n<=512"
				}
				shape := "fresh-names-or-no-logs"
				if rewrite && withLogs {
					shape = "rewritten-names-with-logs"
				}
				ex := "excess>2.5x"
				if n <= 4 {
					ex = "excess>15%"
					if ratio <= 1.15 {
						ex = "excess<=15%"
					}
				} else if ratio <= 2.5 {
					ex = "excess<=2.5x"
				}
				// recorded once per signature; the workload continues so that larger n are still checked
				r.Violate([]string{"C17"}, "entries-bound|"+nb+"|"+shape+"|"+ex, fmt.Sprintf("%s: after %d transactions %d entries were rewritten, bound n*log2(n)*entries = %.1f (x%.3f); table sizes %v", desc, n, st.Stats.EntriesWritten, bound, ratio, dirSizes(dir, after)), cs)
				r.Count("entries_bound_exceedances", 1)
			}
			if rd := float64(depth) / (2 * lg); rd > maxRatioDepth {
				maxRatioDepth = rd
			}
			if re := float64(st.Stats.EntriesWritten) / bound; re > maxRatioEntries {
				maxRatioEntries = re
			}
		}
	}
	r.Count("workloads", 1)
	r.SetAdd("workload_shapes", fmt.Sprintf("refs=%d logs=%v rewrite=%v kind=%d sha256=%v bs=%d unaligned=%v", refsPer, withLogs, rewrite, kind, gcfg.SHA256, gcfg.BlockSize, gcfg.Unaligned))
	r.Sample(map[string]interface{}{"workload": desc, "max_depth_over_bound": maxRatioDepth, "max_entries_over_bound": maxRatioEntries, "final_tables": len(stx.Names(st)), "entries_written": st.Stats.EntriesWritten})
}

// contiguousRemoval: after = prefix(before) + [one new table] + suffix(before+added), i.e.
// the tables that disappeared form one contiguous range.
func contiguousRemoval(before, after []string) bool {
	inAfter := map[string]bool{}
	for _, a := range after {
		inAfter[a] = true
	}
	// positions of before-tables that vanished
	first, last := -1, -1
	for i, b := range before {
		if !inAfter[b] {
			if first < 0 {
				first = i
			}
			last = i
		}
	}
	if first < 0 {
		return true
	}
	for i := first; i <= last; i++ {
		if inAfter[before[i]] {
			return false
		}
	}
	return true
}

func dirSizes(dir string, names []string) []int64 {
	var out []int64
	for _, n := range names {
		fi, err := os.Stat(filepath.Join(dir, n))
		if err == nil {
			out = append(out, fi.Size())
		}
	}
	return out
}

// ---- (c) the "nothing to do exactly when ..." clause on real stacks -----------------

// c17TableOfSize commits one table (a single symref whose target length steers the byte
// size) through NewAddition/Commit, which does not auto-compact.
func c17Commit(st *reftable.Stack, id int, targetLen int) error {
	return rtx.Safe(func() error {
		add, err := st.NewAddition()
		if err != nil {
			return err
		}
		defer add.Close()
		ui := st.NextUpdateIndex()
		err = add.Add(func(w *reftable.Writer) error {
			w.SetLimits(ui, ui)
			tgt := make([]byte, targetLen)
			for i := range tgt {
				tgt[i] = byte('a' + (i+id)%26)
			}
			return w.AddRef(&reftable.RefRecord{RefName: fmt.Sprintf("refs/heads/t%05d", id), UpdateIndex: ui, Target: string(tgt)})
		})
		if err != nil {
			return err
		}
		return add.Commit()
	})
}

// runC17Stacks: stacks built without auto-compaction from tables whose sizes sit on and
// around power-of-two boundaries; then AutoCompact. Oracle: size class of a table =
// floor(log2(file size - header - footer + 1)) (the bytes of its blocks, never 0);
// AutoCompact must attempt a compaction iff two adjacent tables share a class, and an
// attempt that succeeds must strictly reduce the table count over a contiguous range.
func runC17Stacks(c *Ctx) {
	r := c.Rep
	n := c.N(400, 8000)
	for idx := 0; idx < n; idx++ {
		if !c.Mine(idx) {
			continue
		}
		rng := gen.NewRng(gen.Mix(c.Seed^0x17c, int64(idx)))
		gcfg := gen.Cfg{SHA256: idx%2 == 1}
		if idx%5 == 4 {
			gcfg.Unaligned = true
		}
		cfg := rtx.Config(gcfg)
		hdr, ftr := 24, 68
		if gcfg.SHA256 {
			hdr, ftr = 28, 72
		}
		dir := c.TempDir(fmt.Sprintf("c17s-%d", idx))
		st, err := stx.Open(dir, cfg)
		if err != nil {
			os.RemoveAll(dir)
			continue
		}
		ntab := 2 + rng.Intn(4)
		// target lengths: around the class boundaries of the resulting table size
		var sizes []int64
		okc := true
		for i := 0; i < ntab; i++ {
			k := 7 + rng.Intn(5) // class boundary 2^k
			base := 1 << uint(k)
			// a table with target length L has corrected size ~ L + 40; aim near the boundary
			L := base - 46 + rng.Intn(14)
			if rng.Chance(0.3) {
				L = base/2 + rng.Intn(base/2)
			}
			if L < 1 {
				L = 1
			}
			if i > 0 && rng.Chance(0.35) {
				// repeat (about) the previous size: adjacent tables of one class
				L = int(sizes[len(sizes)-1]) - 40 + rng.Intn(3) - 1
				if L < 1 {
					L = 1
				}
			}
			if err := c17Commit(st, i, L); err != nil {
				okc = false
				break
			}
			names := stx.Names(st)
			fi, err := os.Stat(filepath.Join(dir, names[len(names)-1]))
			if err != nil {
				okc = false
				break
			}
			sizes = append(sizes, fi.Size()-int64(hdr)-int64(ftr)+1)
		}
		if !okc {
			stx.SafeClose(st)
			os.RemoveAll(dir)
			r.Inconclusive++
			continue
		}
		var classes []int
		var usz []uint64
		for _, s := range sizes {
			classes = append(classes, flog2(uint64(s)))
			usz = append(usz, uint64(s))
		}
		want := adjacentSameClass(usz)
		before := stx.Names(st)
		att0, fail0 := st.Stats.Attempts, st.Stats.Failures
		aerr := rtx.Safe(func() error { return st.AutoCompact() })
		after := stx.Names(st)
		attempted := st.Stats.Attempts > att0
		r.Evaluations++
		cs := map[string]interface{}{"prop": "C17", "kind": "stack", "seed": c.Seed, "index": idx, "sha256": gcfg.SHA256, "block_byte_sizes": sizes, "classes": classes}
		switch {
		case aerr != nil:
			r.Violate([]string{"C17", "C04"}, "stack-autocompact-error|"+errClass(aerr), fmt.Sprintf("AutoCompact failed on a single-handle stack: %v %s", aerr, PanicDetail(aerr)), cs)
		case attempted && !want:
			r.Violate([]string{"C17"}, "stack-compacts-without-equal-class-neighbours", fmt.Sprintf("table sizes %v (classes %v): AutoCompact compacted although no two adjacent tables share a size class (%d -> %d tables)", sizes, classes, len(before), len(after)), cs)
		case !attempted && want:
			r.Violate([]string{"C17"}, "stack-nothing-to-do-despite-equal-class-neighbours", fmt.Sprintf("table sizes %v (classes %v): AutoCompact reported nothing to do although two adjacent tables share a size class", sizes, classes), cs)
		case attempted && st.Stats.Failures == fail0 && len(after) >= len(before):
			r.Violate([]string{"C17"}, "stack-autocompaction-no-progress", fmt.Sprintf("table sizes %v: AutoCompact ran but the stack went from %d to %d tables", sizes, len(before), len(after)), cs)
		case attempted && !contiguousRemoval(before, after):
			r.Violate([]string{"C17"}, "stack-autocompaction-non-contiguous", fmt.Sprintf("before %v after %v", before, after), cs)
		}
		// boundary cases are the non-trivial ones: some table within 6 bytes of a power of two
		near := false
		for _, s := range sizes {
			for k := uint(6); k < 14; k++ {
				if d := s - int64(1)<<k; d >= -6 && d <= 6 {
					near = true
				}
			}
		}
		if near || want {
			r.Nontrivial(rep.Hash("c17s", fmt.Sprint(c.Seed), fmt.Sprint(idx)))
		}
		r.Count("stacks_checked", 1)
		if near {
			r.Count("stacks_with_a_table_within_6_bytes_of_a_class_boundary", 1)
		}
		if idx%97 == 0 {
			r.Sample(map[string]interface{}{"kind": "stack", "sizes": sizes, "classes": classes, "expect_compaction": want, "attempted": attempted, "tables_after": len(after)})
		}
		stx.SafeClose(st)
		os.RemoveAll(dir)
	}
	runC17StaleHandle(c)
}

// runC17StaleHandle: the chooser's answer must be applied to the list it was computed on.
// A second handle is opened while the stack is being built, the writer then adds the
// remaining tables (and, when the wrapper is available, compacts an explicit range), and
// the second - now stale - handle calls AutoCompact. Whatever that call does, it must not
// merge tables of a list in which no two adjacent tables share a size class.
func runC17StaleHandle(c *Ctx) {
	r := c.Rep
	n := c.N(300, 6000)
	for idx := 0; idx < n; idx++ {
		if !c.Mine(idx) {
			continue
		}
		rng := gen.NewRng(gen.Mix(c.Seed^0x17d, int64(idx)))
		gcfg := gen.Cfg{SHA256: idx%2 == 1}
		cfg := rtx.Config(gcfg)
		hdr, ftr := 24, 68
		if gcfg.SHA256 {
			hdr, ftr = 28, 72
		}
		dir := c.TempDir(fmt.Sprintf("c17h-%d", idx))
		func() {
			defer os.RemoveAll(dir)
			st, err := stx.Open(dir, cfg)
			if err != nil {
				return
			}
			defer func() { stx.SafeClose(st) }()
			setAutoCompact(st, false)
			if !haveAutoCompactSwitch {
				return
			}
			ntab := 3 + rng.Intn(4)
			openAt := 1 + rng.Intn(ntab-1)
			var h2 *reftable.Stack
			defer func() {
				if h2 != nil {
					stx.SafeClose(h2)
				}
			}()
			// strictly decreasing classes with equal-class runs sprinkled in
			k := 11
			for i := 0; i < ntab; i++ {
				if i == openAt {
					h2, err = stx.Open(dir, cfg)
					if err != nil {
						return
					}
				}
				if !rng.Chance(0.45) && k > 6 {
					k--
				}
				L := (1 << uint(k)) + rng.Intn(1<<uint(k-1)) - 40
				if c17Commit(st, i, L) != nil {
					r.Inconclusive++
					return
				}
			}
			if haveCompactRange && rng.Chance(0.6) {
				first := rng.Intn(ntab - 1)
				last := first + 1 + rng.Intn(ntab-first-1)
				if _, err := compactRange(st, first, last); err != nil {
					return
				}
			}
			if rng.Chance(0.4) {
				if c17Commit(st, ntab, 1+rng.Intn(60)) != nil {
					return
				}
			}
			if h2 == nil {
				return
			}
			before, _ := stx.ListNames(dir)
			var usz []uint64
			var classes []int
			for _, nm := range before {
				fi, err := os.Stat(filepath.Join(dir, nm))
				if err != nil {
					return
				}
				sz := uint64(fi.Size() - int64(hdr) - int64(ftr) + 1)
				usz = append(usz, sz)
				classes = append(classes, flog2(sz))
			}
			stale := fmt.Sprint(stx.Names(h2)) != fmt.Sprint(before)
			aerr := rtx.Safe(func() error { return h2.AutoCompact() })
			after, _ := stx.ListNames(dir)
			r.Evaluations++
			r.Count("stale_handle_autocompactions", 1)
			cs := map[string]interface{}{"prop": "C17", "kind": "stale-handle-stack", "seed": c.Seed, "index": idx, "classes_on_disk": classes, "handle_was_stale": stale}
			if rtx.IsPanic(aerr) {
				r.Violate([]string{"C17"}, "stale-handle-autocompact-"+PanicSig(aerr), "AutoCompact through a stale handle panicked: "+PanicDetail(aerr), cs)
				return
			}
			if fmt.Sprint(after) != fmt.Sprint(before) && !adjacentSameClass(usz) {
				r.Violate([]string{"C17"}, "stale-handle-compacts-without-equal-class-neighbours", fmt.Sprintf("the list on disk had classes %v (no two adjacent tables share one); AutoCompact through a handle that was opened earlier (stale=%v) changed it from %d to %d tables: the suggestion was computed on another list than the one it was applied to", classes, stale, len(before), len(after)), cs)
				return
			}
			if stale {
				r.Nontrivial(rep.Hash("c17h", fmt.Sprint(c.Seed), fmt.Sprint(idx)))
			}
		}()
	}
}
