package props

import (
	"io"
	"bufio"
	"bytes"
	"compress/zlib"
	"encoding/binary"
	"encoding/json"
	"fmt"
	"hash/crc32"
	"math"
	"os"
	"os/exec"
	"path/filepath"
	"runtime/metrics"
	"strconv"
	"strings"
	"syscall"
	"time"

	"github.com/google/reftable"
	"verif/harness/dec"
	"verif/harness/gen"
	"verif/harness/rep"
	"verif/harness/rtx"
)

// ---- base tables -------------------------------------------------------------------

type baseTable struct {
	data  []byte
	t     *gen.Table
	names []string
	oids  [][]byte
	desc  string
}

func c18Bases(seed int64) []baseTable {
	var out []baseTable
	add := func(t *gen.Table, desc string) {
		data, err := rtx.WriteTable(t)
		if err != nil || len(data) > 24000 || len(data) < 100 {
			return
		}
		b := baseTable{data: data, t: t, desc: desc + " " + t.Cfg.String()}
		for i, r := range t.Refs {
			if i%7 == 0 {
				b.names = append(b.names, r.Name)
			}
			if r.Value != nil && len(b.oids) < 6 {
				b.oids = append(b.oids, r.Value)
			}
		}
		for i, l := range t.Logs {
			if i%11 == 0 {
				b.names = append(b.names, l.Name)
			}
		}
		if len(b.names) > 12 {
			b.names = b.names[:12]
		}
		out = append(out, b)
	}
	// small tables with 2+ index levels (refs and logs) so that index mutations have
	// something to chew on
	for i := 0; i < 6; i++ {
		r := gen.NewRng(seed + int64(i)*31)
		t := &gen.Table{}
		t.Cfg.SHA256 = i%2 == 1
		t.Cfg.BlockSize = 128
		if t.Cfg.SHA256 {
			t.Cfg.BlockSize = 160
		}
		t.Cfg.Unaligned = i%3 == 2
		t.Cfg.Restart = []int{0, 1, 3}[i%3]
		t.Cfg.SetLimits, t.Cfg.Min, t.Cfg.Max = true, 1, 9
		hs := t.Cfg.HashSize()
		pool := r.NewPool(hs, 4)
		n := 90 + 20*i
		for j := 0; j < n; j++ {
			t.Refs = append(t.Refs, gen.Ref{Name: fmt.Sprintf("r/%04d", j*3), UI: 1 + uint64(j%9), Kind: gen.KVal, Value: pool.Get()})
		}
		if i >= 3 {
			for j := 0; j < 40; j++ {
				t.Logs = append(t.Logs, gen.Log{Name: fmt.Sprintf("r/%04d", j*3), UI: 2, New: pool.Get(), User: "u", Email: "e", Time: 7, Msg: "m\n"})
			}
		}
		add(t, fmt.Sprintf("multi-level-index#%d", i))
	}
	for i := 0; len(out) < 28 && i < 400; i++ {
		add(gen.GenTable(seed^0xc18, i), fmt.Sprintf("GenTable#%d", i))
	}
	for i := 0; len(out) < 44 && i < 200; i++ {
		add(GenOidTable(seed^0xc18, i), fmt.Sprintf("GenOidTable#%d", i))
	}
	return out
}

// ---- mutation ----------------------------------------------------------------------

func fixCRC(d []byte) {
	if len(d) < 72 {
		return
	}
	fs := 68
	if d[4] == 2 {
		fs = 72
	}
	if len(d) < fs {
		return
	}
	f := d[len(d)-fs:]
	binary.BigEndian.PutUint32(f[fs-4:], crc32.ChecksumIEEE(f[:fs-4]))
}

func hdrSize(d []byte) int {
	if len(d) > 4 && d[4] == 2 {
		return 28
	}
	return 24
}

// blockStarts finds plausible block header positions (type byte followed by a u24).
func blockStarts(d []byte) []int {
	var out []int
	hs := hdrSize(d)
	for i := hs; i+4 < len(d)-68; i++ {
		switch d[i] {
		case 'r', 'g', 'i', 'o':
			if i == hs || d[i-1] == 0 || i%64 == 0 {
				out = append(out, i)
			}
		}
	}
	if len(out) > 64 {
		out = out[:64]
	}
	return out
}

func mutate(r *gen.Rng, bases []baseTable, bi int, forceKind int) (data []byte, kind string) {
	src := bases[bi].data
	d := append([]byte(nil), src...)
	hs := hdrSize(d)
	fsz := 68
	if hs == 28 {
		fsz = 72
	}
	body := len(d) - fsz
	k := r.Intn(18) // kinds 18..20 (log-plaintext) come as EXTRA mutants of every batch, see runC18Batch
	if forceKind >= 0 {
		k = forceKind
	}
	repair := r.Chance(0.7)
	switch k {
	case 0:
		kind = "bitflip"
		n := 1 + r.Intn(3)
		for i := 0; i < n; i++ {
			p := r.Intn(len(d))
			d[p] ^= 1 << uint(r.Intn(8))
		}
	case 1:
		kind = "byteset"
		n := 1 + r.Intn(4)
		for i := 0; i < n; i++ {
			p := hs + r.Intn(maxi(1, body-hs))
			d[p] = []byte{0, 0xff, 0x80, 0x7f, byte(r.Intn(256))}[r.Intn(5)]
		}
	case 2:
		kind = "truncate"
		d = d[:r.Intn(len(d))]
		repair = false
	case 3:
		kind = "truncate-keep-footer"
		cut := hs + r.Intn(maxi(1, body-hs))
		d = append(append([]byte(nil), d[:cut]...), src[body:]...)
	case 4:
		kind = "splice"
		o := bases[r.Intn(len(bases))].data
		if len(o) > 100 && body > hs+8 {
			a := hs + r.Intn(body-hs)
			n := 1 + r.Intn(mini(200, body-a))
			b := r.Intn(len(o) - 1)
			if b+n > len(o) {
				n = len(o) - b
			}
			copy(d[a:a+n], o[b:b+n])
		}
	case 5:
		kind = "blocklen"
		bs := blockStarts(d)
		if len(bs) > 0 {
			p := bs[r.Intn(len(bs))]
			v := []uint32{0, 1, 3, 5, 0xffffff, uint32(r.Intn(1 << 16)), uint32(len(d))}[r.Intn(7)]
			d[p+1], d[p+2], d[p+3] = byte(v>>16), byte(v>>8), byte(v)
		}
	case 6:
		kind = "blocktype"
		bs := blockStarts(d)
		if len(bs) > 0 {
			p := bs[r.Intn(len(bs))]
			d[p] = []byte{'r', 'g', 'i', 'o', 'x', 0}[r.Intn(6)]
		}
	case 7:
		kind = "restartcount"
		// the two bytes before a block's end: find via block_len
		bs := blockStarts(d)
		if len(bs) > 0 {
			p := bs[r.Intn(len(bs))]
			bl := int(d[p+1])<<16 | int(d[p+2])<<8 | int(d[p+3])
			start := p
			if p == hs {
				start = 0
			}
			e := start + bl
			if e-2 > p+4 && e <= body {
				v := []uint16{0, 1, 0xffff, uint16(r.Intn(1 << 12)), uint16(bl)}[r.Intn(5)]
				binary.BigEndian.PutUint16(d[e-2:], v)
			}
		}
	case 8:
		kind = "varint"
		p := hs + 4 + r.Intn(maxi(1, body-hs-4))
		n := 1 + r.Intn(9)
		for i := 0; i < n && p+i < body; i++ {
			d[p+i] = 0x80 | byte(r.Intn(128))
		}
	case 9:
		kind = "footer-field"
		f := d[len(d)-fsz:]
		off := hs + 8*r.Intn(5)
		v := []uint64{0, 1, uint64(len(d)), uint64(len(d)) * 2, math.MaxUint64, uint64(r.Intn(len(d))), uint64(r.Intn(len(d))) << 5}[r.Intn(7)]
		binary.BigEndian.PutUint64(f[off:], v)
		repair = true
	case 10:
		kind = "header-field"
		// change header AND footer copy consistently
		f := d[len(d)-fsz:]
		switch r.Intn(4) {
		case 0: // block size
			v := []uint32{0, 1, 16, 64, 0xffffff, uint32(r.Intn(1 << 16))}[r.Intn(6)]
			d[5], d[6], d[7] = byte(v>>16), byte(v>>8), byte(v)
		case 1: // min/max
			binary.BigEndian.PutUint64(d[8:], r.Uint64())
		case 2:
			binary.BigEndian.PutUint64(d[16:], uint64(r.Intn(4)))
		case 3:
			if hs == 28 {
				copy(d[24:28], []string{"sha1", "s256", "xxxx"}[r.Intn(3)])
			} else {
				d[4] = byte(r.Intn(4))
			}
		}
		copy(f[:hs], d[:hs])
		repair = true
	case 11:
		kind = "zlib-bomb"
		// replace the first log block's payload by a stream inflating to far more than block_len
		for _, p := range blockStarts(d) {
			if d[p] != 'g' {
				continue
			}
			var zb bytes.Buffer
			zw, _ := zlib.NewWriterLevel(&zb, 9)
			inflated := []int{1 << 16, 1 << 22, 1 << 26, 1 << 27}[r.Intn(4)]
			zw.Write(make([]byte, inflated))
			zw.Close()
			nd := append([]byte(nil), d[:p+4]...)
			// the block length field: as it was, smaller than the block header (the
			// inflate limit is computed from it), honest, or maximal
			start := p
			if p == hs {
				start = 0
			}
			var bl uint32
			switch r.Intn(5) {
			case 0:
				bl = uint32(nd[p+1])<<16 | uint32(nd[p+2])<<8 | uint32(nd[p+3])
			case 1:
				bl = uint32(r.Intn(p - start + 4))
			case 2:
				bl = uint32(p - start + 4 + r.Intn(3))
			case 3:
				bl = uint32(p-start+4+inflated) & 0xffffff
			case 4:
				bl = 0xffffff
			}
			nd[p+1], nd[p+2], nd[p+3] = byte(bl>>16), byte(bl>>8), byte(bl)
			nd = append(nd, zb.Bytes()...)
			nd = append(nd, src[body:]...)
			d = nd
			if r.Chance(0.6) {
				// raise the table's block size so that one read covers the whole stream
				v := []uint32{0xffffff, 1 << 20, uint32(len(d))}[r.Intn(3)]
				d[5], d[6], d[7] = byte(v>>16), byte(v>>8), byte(v)
				f := d[len(d)-fsz:]
				copy(f[:hs], d[:hs])
				repair = true
			}
			break
		}
	case 12:
		kind = "zlib-garbage"
		for _, p := range blockStarts(d) {
			if d[p] == 'g' && p+12 < body {
				n := 1 + r.Intn(mini(40, body-p-6))
				for i := 0; i < n; i++ {
					d[p+4+r.Intn(mini(64, body-p-5))] = byte(r.Intn(256))
				}
				break
			}
		}
	case 13:
		kind = "index-offset"
		// find an 'i' block and scribble over varint-looking bytes near its records
		for _, p := range blockStarts(d) {
			if d[p] == 'i' {
				for j := 0; j < 6; j++ {
					q := p + 4 + r.Intn(mini(120, maxi(1, body-p-5)))
					d[q] = byte(r.Intn(256))
				}
				break
			}
		}
	case 14:
		kind = "short-file"
		n := []int{0, 1, 4, 23, 24, 28, 29, 67, 68, 72, 91, 92, 95, 99}[r.Intn(14)]
		if n < len(d) {
			d = d[:n]
		}
		repair = false
	case 16, 17:
		kind = "index-retarget"
		// rewrite the position of one index entry so that it names another index block
		// (cycles of any length), a block of another section, or itself
		if info, _ := dec.Decode(src, dec.Options{StructuralOnly: true}); info != nil {
			var idxBlocks []int
			for i := range info.Blocks {
				if info.Blocks[i].Type == 'i' && len(info.Blocks[i].Idx) > 0 {
					idxBlocks = append(idxBlocks, i)
				}
			}
			if len(idxBlocks) > 0 {
				b := &info.Blocks[idxBlocks[r.Intn(len(idxBlocks))]]
				e := b.Idx[r.Intn(len(b.Idx))]
				// candidate targets: any block start
				for try := 0; try < 20; try++ {
					tb := &info.Blocks[r.Intn(len(info.Blocks))]
					if try < 12 && tb.Type != 'i' {
						continue
					}
					enc := encVarint(uint64(tb.Off))
					if len(enc) == e.ValLen && b.Off+e.ValOff+e.ValLen <= body {
						copy(d[b.Off+e.ValOff:], enc)
						break
					}
				}
			}
		}
		repair = false
	case 18, 19, 20:
		// structure-aware edits INSIDE a compressed log block: inflate it, edit the plain
		// records / restart table, deflate again with a consistent block length - flips of
		// the compressed bytes almost always die in the inflater and never reach the log
		// record decoder with a well-formed envelope
		kind = "log-plaintext"
		if nd, sub := mutateLogPlain(r, src, hs, fsz); nd != nil {
			d = nd
			kind += "-" + sub
			repair = true
		}
	case 15:
		kind = "dup-tail"
		// append the footer again / insert zeros before the footer
		switch r.Intn(2) {
		case 0:
			d = append(d, src[body:]...)
		case 1:
			nd := append([]byte(nil), d[:body]...)
			nd = append(nd, make([]byte, 1+r.Intn(300))...)
			d = append(nd, src[body:]...)
		}
	}
	if repair {
		fixCRC(d)
	}
	return d, kind
}

// mutateLogPlain rewrites one log block of a valid table: the zlib stream is inflated, the
// plain bytes are edited, and the block is deflated again with block_len and (for cuts) the
// restart table made consistent, so that the edit reaches the record decoder. Later blocks
// move; the footer's log index position is shifted with them.
func mutateLogPlain(r *gen.Rng, src []byte, hs, fsz int) ([]byte, string) {
	info, _ := dec.Decode(src, dec.Options{StructuralOnly: true})
	if info == nil {
		return nil, ""
	}
	var gs []int
	for i := range info.Blocks {
		if info.Blocks[i].Type == 'g' {
			gs = append(gs, i)
		}
	}
	if len(gs) == 0 {
		return nil, ""
	}
	bi := gs[len(gs)-1]
	if r.Chance(0.4) {
		bi = gs[r.Intn(len(gs))]
	}
	b := &info.Blocks[bi]
	hp := b.Off
	if b.Off == 0 {
		hp = hs
	}
	end := b.Off + b.FullLen
	if hp+4 >= end || end > len(src)-fsz {
		return nil, ""
	}
	zr, err := zlib.NewReader(bytes.NewReader(src[hp+4 : end]))
	if err != nil {
		return nil, ""
	}
	plain, err := io.ReadAll(io.LimitReader(zr, 1<<24))
	if err != nil || len(plain) < 2 {
		return nil, ""
	}
	pre := hp - b.Off + 4 // bytes of the block before the plain part (restart offsets count them)
	nr := int(binary.BigEndian.Uint16(plain[len(plain)-2:]))
	recEnd := len(plain) - 2 - 3*nr
	if recEnd <= 0 {
		return nil, ""
	}
	var restarts []int
	for i := 0; i < nr; i++ {
		o := plain[recEnd+3*i:]
		restarts = append(restarts, int(o[0])<<16|int(o[1])<<8|int(o[2]))
	}
	sub := ""
	switch r.Intn(6) {
	case 0, 1:
		// cut the record area at any byte (often inside the last records) and close the
		// block properly: the restart entries that still point into it, and their count
		sub = "cut"
		c := r.Intn(recEnd + 1)
		if r.Chance(0.5) {
			c = recEnd - r.Intn(mini(recEnd, 160)+1)
		}
		np := append([]byte(nil), plain[:c]...)
		n := 0
		for _, o := range restarts {
			if o-pre < c {
				np = append(np, byte(o>>16), byte(o>>8), byte(o))
				n++
			}
		}
		np = append(np, byte(n>>8), byte(n))
		plain = np
	case 2:
		sub = "flip"
		for i, n := 0, 1+r.Intn(3); i < n; i++ {
			plain[r.Intn(recEnd)] ^= 1 << uint(r.Intn(8))
		}
	case 3:
		sub = "byteset"
		for i, n := 0, 1+r.Intn(4); i < n; i++ {
			plain[r.Intn(recEnd)] = []byte{0, 0xff, 0x80, 0x7f, byte(r.Intn(256))}[r.Intn(5)]
		}
	case 4:
		sub = "varint"
		q := r.Intn(recEnd)
		for i, n := 0, 1+r.Intn(10); i < n && q+i < recEnd; i++ {
			plain[q+i] = 0x80 | byte(r.Intn(128))
		}
	case 5:
		// restart table edits: offsets into the table itself, past the block, before the
		// first record, descending; or a wrong count
		sub = "restart"
		if nr > 0 && r.Chance(0.7) {
			i := r.Intn(nr)
			v := []int{0, pre - 1, pre + recEnd, pre + recEnd + 1, pre + len(plain) - 1, pre + len(plain), 0xffffff, pre + r.Intn(recEnd)}[r.Intn(8)]
			o := plain[recEnd+3*i:]
			o[0], o[1], o[2] = byte(v>>16), byte(v>>8), byte(v)
		} else {
			v := []int{0, nr + 1, nr - 1, 0xffff, len(plain) / 3}[r.Intn(5)]
			binary.BigEndian.PutUint16(plain[len(plain)-2:], uint16(v))
		}
	}
	var zb bytes.Buffer
	zw, _ := zlib.NewWriterLevel(&zb, 9)
	zw.Write(plain)
	zw.Close()
	nd := append([]byte(nil), src[:hp+4]...)
	bl := pre + len(plain)
	nd[hp+1], nd[hp+2], nd[hp+3] = byte(bl>>16), byte(bl>>8), byte(bl)
	nd = append(nd, zb.Bytes()...)
	delta := len(nd) - end
	nd = append(nd, src[end:]...)
	f := nd[len(nd)-fsz:]
	// footer: ... log_position u64, log_index_position u64, crc u32
	lip := binary.BigEndian.Uint64(f[fsz-12:])
	if lip >= uint64(end) {
		binary.BigEndian.PutUint64(f[fsz-12:], uint64(int64(lip)+int64(delta)))
	}
	return nd, sub
}

// encVarint is the reftable varint encoding (own copy for the mutator).
func encVarint(v uint64) []byte {
	var tmp [10]byte
	i := 9
	tmp[i] = byte(v & 0x7f)
	for {
		v >>= 7
		if v == 0 {
			break
		}
		v--
		i--
		tmp[i] = 0x80 | byte(v&0x7f)
	}
	return append([]byte(nil), tmp[i:]...)
}

func maxi(a, b int) int {
	if a > b {
		return a
	}
	return b
}
func mini(a, b int) int {
	if a < b {
		return a
	}
	return b
}

// ---- child: probe inputs -----------------------------------------------------------

type probeResult struct {
	Index    int      `json:"i"`
	Opened   bool     `json:"opened"`
	Findings []string `json:"findings,omitempty"`
	Detail   string   `json:"detail,omitempty"`
	Calls    int      `json:"calls"`
	Errors   int      `json:"errors"`
	Records  int      `json:"records"`
}

var allocSample = []metrics.Sample{{Name: "/gc/heap/allocs:bytes"}}

func allocBytes() uint64 {
	metrics.Read(allocSample)
	return allocSample[0].Value.Uint64()
}

// probeInput exercises every reader entry point on one input.
func probeInput(idx int, data []byte, names []string, oids [][]byte, companion []byte) probeResult {
	res := probeResult{Index: idx}
	limitAlloc := uint64(64<<20) + 64*uint64(len(data))
	limitRecs := 1<<24 + 8*len(data)
	finding := func(sig, detail string) {
		for _, f := range res.Findings {
			if f == sig {
				return
			}
		}
		res.Findings = append(res.Findings, sig)
		if res.Detail == "" {
			res.Detail = detail
		}
	}
	call := func(name string, f func() error) {
		res.Calls++
		before := allocBytes()
		err := rtx.Safe(f)
		used := allocBytes() - before
		if pe, ok := err.(*rtx.PanicError); ok {
			finding("panic|"+TopFrame(pe.Stack)+"|"+PanicClass(pe.Val), fmt.Sprintf("%s: %v\n%s", name, pe.Val, trimTo(pe.Stack, 1600)))
		} else if err != nil {
			res.Errors++
			if strings.HasPrefix(err.Error(), "harness: iterator yielded") {
				finding("unbounded-iteration|"+name, fmt.Sprintf("%s: %v", name, err))
			}
		}
		if used > limitAlloc {
			finding("alloc|"+name, fmt.Sprintf("%s allocated %d bytes for a %d byte input (limit %d)", name, used, len(data), limitAlloc))
		}
	}
	oldMax := rtx.MaxRecords
	rtx.MaxRecords = limitRecs
	defer func() { rtx.MaxRecords = oldMax }()

	var rd *reftable.Reader
	call("NewReader", func() error {
		var e error
		rd, e = reftable.NewReader(&reftable.ByteBlockSource{Source: data}, "mutant")
		return e
	})
	if rd == nil {
		return res
	}
	res.Opened = true
	drainR := func(it *reftable.Iterator) error {
		rs, err := rtx.DrainRefs(it, 0)
		res.Records += len(rs)
		return err
	}
	drainL := func(it *reftable.Iterator) error {
		ls, err := rtx.DrainLogs(it, 0)
		res.Records += len(ls)
		return err
	}
	scanTab := func(label string, tab reftable.Table) {
		call(label+".SeekRef(\"\")", func() error {
			it, err := tab.SeekRef("")
			if err != nil {
				return err
			}
			return drainR(it)
		})
		call(label+".SeekLog(\"\")", func() error {
			it, err := tab.SeekLog("", math.MaxUint64)
			if err != nil {
				return err
			}
			return drainL(it)
		})
		keys := append([]string{"a", "refs/heads/zzzz", "\xff"}, names...)
		for _, k := range keys {
			k := k
			call(label+".SeekRef(k)", func() error {
				it, err := tab.SeekRef(k)
				if err != nil {
					return err
				}
				return drainR(it)
			})
			call(label+".SeekLog(k)", func() error {
				it, err := tab.SeekLog(k, 5)
				if err != nil {
					return err
				}
				return drainL(it)
			})
			call(label+".ReadRef", func() error { _, err := reftable.ReadRef(tab, k); return err })
			call(label+".ReadLogAt", func() error { _, err := reftable.ReadLogAt(tab, k, math.MaxUint64); return err })
		}
		hs := 20
		if len(data) > 4 && data[4] == 2 && len(data) > 28 && string(data[24:28]) == "s256" {
			hs = 32
		}
		qs := append([][]byte{make([]byte, hs), bytes.Repeat([]byte{0xff}, hs)}, oids...)
		for _, o := range qs {
			o := o
			if len(o) != hs {
				continue
			}
			call(label+".RefsFor", func() error {
				it, err := tab.RefsFor(o)
				if err != nil {
					return err
				}
				return drainR(it)
			})
		}
	}
	scanTab("Reader", rd)
	// merged views over (mutant, valid companion) in both orders
	if companion != nil {
		comp, err := rtx.OpenBytes(companion, "valid")
		if err == nil {
			for _, order := range [][]reftable.Table{{rd, comp}, {comp, rd}} {
				var m *reftable.Merged
				order := order
				call("NewMerged", func() error {
					var e error
					m, e = reftable.NewMerged(order, rd.HashID())
					return e
				})
				if m != nil {
					scanTab("Merged", m)
				}
			}
		}
	}
	return res
}

func trimTo(s string, n int) string {
	if len(s) > n {
		return s[:n]
	}
	return s
}

// RunC18Child processes a batch directory: files m-<i>.bin plus meta.json.
func RunC18Child(c *Ctx) {
	// bound the address space so that a count-driven huge allocation dies here (and is
	// reported by the parent) instead of eating the machine
	lim := syscall.Rlimit{Cur: 6 << 30, Max: 6 << 30}
	syscall.Setrlimit(syscall.RLIMIT_AS, &lim)
	dir := os.Getenv("VERIF_C18_BATCH")
	from, _ := strconv.Atoi(os.Getenv("VERIF_C18_FROM"))
	var meta struct {
		N         int        `json:"n"`
		Names     [][]string `json:"names"`
		Oids      [][][]byte `json:"oids"`
		Companion []int      `json:"companion"`
	}
	b, err := os.ReadFile(filepath.Join(dir, "meta.json"))
	if err != nil {
		fmt.Fprintln(os.Stderr, err)
		os.Exit(3)
	}
	json.Unmarshal(b, &meta)
	out := bufio.NewWriter(os.Stdout)
	for i := from; i < meta.N; i++ {
		data, err := os.ReadFile(filepath.Join(dir, fmt.Sprintf("m-%d.bin", i)))
		if err != nil {
			continue
		}
		fmt.Fprintf(out, "START %d\n", i)
		out.Flush()
		var comp []byte
		if meta.Companion[i] >= 0 {
			comp, _ = os.ReadFile(filepath.Join(dir, fmt.Sprintf("valid-%d.bin", meta.Companion[i])))
		}
		res := probeInput(i, data, meta.Names[i], meta.Oids[i], comp)
		jb, _ := json.Marshal(res)
		fmt.Fprintf(out, "RES %s\n", jb)
		out.Flush()
	}
	fmt.Fprintln(out, "DONE")
	out.Flush()
	os.Exit(0)
}

// ---- parent ------------------------------------------------------------------------

type c18Case struct {
	Prop   string `json:"prop"`
	Seed   int64  `json:"seed"`
	Tier   string `json:"tier"`
	Index  int    `json:"index"`
	Base   string `json:"base_table"`
	Mutate string `json:"mutation"`
	File   string `json:"input_file"`
	Detail string `json:"detail"`
}

func procCPU(pid int) float64 {
	b, err := os.ReadFile(fmt.Sprintf("/proc/%d/stat", pid))
	if err != nil {
		return -1
	}
	s := string(b)
	i := strings.LastIndex(s, ")")
	f := strings.Fields(s[i+1:])
	if len(f) < 13 {
		return -1
	}
	ut, _ := strconv.ParseFloat(f[11], 64)
	st, _ := strconv.ParseFloat(f[12], 64)
	return (ut + st) / 100
}

// RunC18: reading damaged or hostile bytes fails cleanly.
func RunC18(c *Ctx) {
	r := c.Rep
	r.Rule = "case = one mutated table (bit flips, byte sets, truncations, splices between tables, block length / type / restart count / varint edits, header and footer field edits, zlib payload replacement incl. deflate bombs, index scribbles, short files; footer CRC repaired in 70% of the cases) fed to NewReader and then to every reader entry point (full scans, seeks at present/absent keys, ReadRef, ReadLogAt, RefsFor, merged views with a valid table in both orders) inside a child process; monitors: no panic, no fatal error/signal of the child, bytes allocated by any single call <= 64 MiB + 64*len(input), an iterator ends within 2^24 + 8*len(input) records, CPU time per input <= 30 s. distinct = hash of the mutant bytes; non-trivial = the mutant passed NewReader (block decoders were reached)"
	r.Assumptions = []string{"CPU-time bound measured from /proc/<child>/stat (load independent); wall clock is only an outer watchdog"}
	bases := c18Bases(c.Seed)
	if len(bases) < 10 {
		r.Note("only %d base tables could be generated", len(bases))
	}
	total := c.N(24000, 600000)
	batch := 400
	self := os.Getenv("VERIF_HARNESS_BIN")
	if self == "" {
		self, _ = os.Executable()
	}
	nb := (total + batch - 1) / batch
	for bi := 0; bi < nb; bi++ {
		if !c.Mine(bi) && c.Only < 0 {
			continue
		}
		if c.Only >= 0 && bi != c.Only/batch {
			continue
		}
		runC18Batch(c, self, bases, bi, batch)
	}
}

func runC18Batch(c *Ctx, self string, bases []baseTable, bi, batch int) {
	r := c.Rep
	dir := c.TempDir(fmt.Sprintf("c18b%d", bi))
	defer os.RemoveAll(dir)
	rng := gen.NewRng(gen.Mix(c.Seed^0xc18b, int64(bi)))
	type mi struct {
		base int
		kind string
		hash uint64
	}
	var infos []mi
	var meta struct {
		N         int        `json:"n"`
		Names     [][]string `json:"names"`
		Oids      [][][]byte `json:"oids"`
		Companion []int      `json:"companion"`
	}
	written := map[int]bool{}
	// the last `extra` mutants of a batch are log-plaintext mutants drawn from their own
	// PRNG stream, so that the stream of the other kinds is what it was before they existed
	extra := batch / 6
	xrng := gen.NewRng(gen.Mix(c.Seed^0xc18c, int64(bi)))
	for i := 0; i < batch+extra; i++ {
		var b int
		var data []byte
		var kind string
		if i < batch {
			b = rng.Intn(len(bases))
			data, kind = mutate(rng, bases, b, -1)
		} else {
			b = xrng.Intn(len(bases))
			data, kind = mutate(xrng, bases, b, 18)
		}
		os.WriteFile(filepath.Join(dir, fmt.Sprintf("m-%d.bin", i)), data, 0644)
		infos = append(infos, mi{b, kind, rep.HashBytes(data)})
		meta.Names = append(meta.Names, bases[b].names)
		meta.Oids = append(meta.Oids, bases[b].oids)
		comp := -1
		if i%5 == 0 {
			comp = rng.Intn(len(bases))
			if !written[comp] {
				written[comp] = true
				os.WriteFile(filepath.Join(dir, fmt.Sprintf("valid-%d.bin", comp)), bases[comp].data, 0644)
			}
		}
		meta.Companion = append(meta.Companion, comp)
	}
	meta.N = batch + extra
	mb, _ := json.Marshal(meta)
	os.WriteFile(filepath.Join(dir, "meta.json"), mb, 0644)

	keep := func(i int, sig, detail string) {
		// keep the witness input under /verif/replays/inputs (small files)
		vdir := os.Getenv("VERIF_DIR")
		file := ""
		if vdir != "" {
			idir := filepath.Join(vdir, "replays", "inputs")
			os.MkdirAll(idir, 0755)
			file = filepath.Join(idir, fmt.Sprintf("C18-%x.bin", infos[i].hash))
			data, _ := os.ReadFile(filepath.Join(dir, fmt.Sprintf("m-%d.bin", i)))
			if _, err := os.Stat(file); err != nil {
				os.WriteFile(file, data, 0644)
			}
		}
		r.Violate([]string{"C18"}, sig, detail, c18Case{Prop: "C18", Seed: c.Seed, Tier: c.Tier, Index: bi*batch + i, Base: bases[infos[i].base].desc, Mutate: infos[i].kind, File: file, Detail: trimTo(detail, 600)})
	}

	from := 0
	for from < batch+extra {
		cmd := exec.Command(self, "-prop", "C18child", "-out", dir, "-work", dir)
		cmd.Env = append(os.Environ(), "VERIF_C18_BATCH="+dir, fmt.Sprintf("VERIF_C18_FROM=%d", from), "GOMAXPROCS=1", "GOMEMLIMIT=3GiB")
		outF, _ := os.Create(filepath.Join(dir, "child.out"))
		errF, _ := os.Create(filepath.Join(dir, "child.err"))
		cmd.Stdout, cmd.Stderr = outF, errF
		if err := cmd.Start(); err != nil {
			r.Inconclusive++
			r.Note("cannot start the child: %v", err)
			return
		}
		done := make(chan error, 1)
		go func() { done <- cmd.Wait() }()
		// watchdog on CPU time since the last START line
		lastStart, lastCPU := -1, 0.0
		hung := false
		var werr error
		tick := time.NewTicker(300 * time.Millisecond)
	loop:
		for {
			select {
			case werr = <-done:
				break loop
			case <-tick.C:
				cur := lastStartLine(filepath.Join(dir, "child.out"))
				cpu := procCPU(cmd.Process.Pid)
				if cur != lastStart {
					lastStart, lastCPU = cur, cpu
				} else if cpu >= 0 && cpu-lastCPU > 30 {
					hung = true
					cmd.Process.Kill()
					werr = <-done
					break loop
				}
			}
		}
		tick.Stop()
		outF.Close()
		errF.Close()
		// read results
		last := -1
		finished := false
		f, _ := os.Open(filepath.Join(dir, "child.out"))
		sc := bufio.NewScanner(f)
		sc.Buffer(make([]byte, 1<<20), 1<<24)
		for sc.Scan() {
			line := sc.Text()
			switch {
			case strings.HasPrefix(line, "START "):
				last, _ = strconv.Atoi(line[6:])
			case strings.HasPrefix(line, "RES "):
				var pr probeResult
				if json.Unmarshal([]byte(line[4:]), &pr) == nil {
					r.Evaluations++
					r.Count("api_calls", pr.Calls)
					r.Count("clean_errors", pr.Errors)
					r.Count("records_returned", pr.Records)
					r.SetAdd("mutation_kinds", infos[pr.Index].kind)
					if pr.Opened {
						r.Nontrivial(infos[pr.Index].hash)
						r.Count("mutants_passing_NewReader", 1)
					}
					for _, fd := range pr.Findings {
						keep(pr.Index, fd, pr.Detail)
					}
					last = -1
				}
			case line == "DONE":
				finished = true
			}
		}
		f.Close()
		if finished {
			break
		}
		// the child died on input `last`
		if last < 0 {
			r.Inconclusive++
			r.Note("child ended without DONE and without a pending input: %v", werr)
			break
		}
		eb, _ := os.ReadFile(filepath.Join(dir, "child.err"))
		tail := string(eb)
		r.Evaluations++
		if hung {
			keep(last, "hang|cpu-time", fmt.Sprintf("the child used more than 30 s of CPU on one input (%s of %s)", infos[last].kind, bases[infos[last].base].desc))
		} else {
			sig := "fatal|" + fatalClass(tail)
			keep(last, sig, fmt.Sprintf("the child process died (%v) on %s of %s:\n%s", werr, infos[last].kind, bases[infos[last].base].desc, trimTo(tail, 2500)))
		}
		from = last + 1
	}
	if bi%40 == 0 {
		r.Sample(map[string]interface{}{"batch": bi, "first_mutation": infos[0].kind, "of_base": bases[infos[0].base].desc, "bytes": len(bases[infos[0].base].data)})
	}
}

func lastStartLine(path string) int {
	b, err := os.ReadFile(path)
	if err != nil {
		return -1
	}
	i := bytes.LastIndex(b, []byte("START "))
	if i < 0 {
		return -1
	}
	j := bytes.IndexByte(b[i:], '\n')
	if j < 0 {
		return -1
	}
	n, _ := strconv.Atoi(string(b[i+6 : i+j]))
	return n
}

func fatalClass(stderr string) string {
	switch {
	case strings.Contains(stderr, "out of memory") || strings.Contains(stderr, "cannot allocate"):
		top := TopFrame(stderr)
		return "out-of-memory|" + top
	case strings.Contains(stderr, "stack overflow"):
		return "stack-overflow|" + TopFrame(stderr)
	case strings.Contains(stderr, "fatal error"):
		return "fatal-error|" + TopFrame(stderr)
	case strings.Contains(stderr, "panic:"):
		return "uncaught-panic|" + TopFrame(stderr)
	}
	return "killed"
}
