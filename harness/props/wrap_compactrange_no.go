//go:build !have_compactrange

package props

import "github.com/google/reftable"

const haveCompactRange = false

func compactRange(st *reftable.Stack, first, last int) (bool, error) { return false, nil }
