package props

import (
	"fmt"
	"os"
	"path/filepath"
	"sort"
	"strings"

	"github.com/google/reftable"
	"verif/harness/eng"
	"verif/harness/gen"
	"verif/harness/rep"
	"verif/harness/rtx"
	"verif/harness/stx"
)

type histCase struct {
	Prop   string   `json:"prop"`
	Seed   int64    `json:"seed"`
	Index  int      `json:"index"`
	Gen    string   `json:"generator"`
	Cfg    string   `json:"cfg"`
	Ops    []string `json:"ops"`
	Detail string   `json:"detail,omitempty"`
}

// tabInfo is what the harness knows about the content of one table of the stack.
type tabInfo struct {
	min, max uint64
	keys     map[string]bool // "r"+name / "g"+name+ui
	tombs    map[string]bool // keys whose record in this table is a tombstone
	merged   int             // number of original tables merged into it
	// full records (newest-wins overlay of the merged parts), tombstones included
	refs  map[string]gen.Ref
	logs  map[gen.LogKey]gen.Log
	first int  // stack position of the first merged part (0 = includes the oldest table)
	exact bool // records are exactly what the writer was given (Add), not an overlay
}

func newTabInfo(min, max uint64) *tabInfo {
	return &tabInfo{min: min, max: max, keys: map[string]bool{}, tombs: map[string]bool{}, refs: map[string]gen.Ref{}, logs: map[gen.LogKey]gen.Log{}, first: -1}
}

func parseRange(name string) (min, max uint64, ok bool) {
	var suf uint32
	n, err := fmt.Sscanf(name, "0x%012x-0x%012x-%08x.ref", &min, &max, &suf)
	return min, max, err == nil && n == 3
}

func txnInfo(t *gen.Txn, ui uint64, hs int, exactLog bool) *tabInfo {
	ti := newTabInfo(ui, ui)
	ti.merged = 1
	ti.exact = true
	refs, logs := t.Materialize(ui)
	for _, r := range refs {
		ti.refs[r.Name] = r
		ti.keys["r"+r.Name] = true
		if r.Kind == gen.KDel {
			ti.tombs["r"+r.Name] = true
		}
	}
	for _, l := range logs {
		k := fmt.Sprintf("g%s\x00%d", l.Name, l.UI)
		ti.logs[gen.LogKey{Name: l.Name, UI: l.UI}] = gen.NormLog(l, hs, exactLog)
		ti.keys[k] = true
		if l.Del {
			ti.tombs[k] = true
		}
	}
	return ti
}

// histStats summarises what compactions a history exercised.
type histStats struct {
	compactions       int
	nontrivial        int
	upperWithTomb     int // range above table 0 containing a tombstone for a key of a lower table
	fullWithTomb      int
	maxDepth          int
	emptyResult       int
}

// cfgForHistory draws a stack configuration.
func cfgForHistory(r *gen.Rng, idx int) gen.Cfg {
	c := gen.Cfg{SHA256: idx%2 == 1}
	c.BlockSize = []uint32{0, 0, 256, 512, 1024, 4096}[r.Intn(6)]
	if idx%6 == 0 {
		c.BlockSize = 256 // with a large first transaction: multi-level indexes after compaction
	}
	if c.SHA256 && c.BlockSize == 256 {
		c.BlockSize = 400
	}
	c.Restart = []int{0, 1, 3, 16}[r.Intn(4)]
	c.Unaligned = r.Chance(0.25)
	c.SkipIndexObjects = r.Chance(0.25)
	c.ExactLog = r.Chance(0.3)
	return c
}

// stackTracker follows the table list of one directory and what each table contains.
type stackTracker struct {
	infos []*tabInfo
	names []string
}

// update reconciles the tracker with the new list; returns for every new table the
// tracked tables that were merged into it.
func (s *stackTracker) update(newNames []string, added *tabInfo, st *histStats) (mergedRanges [][]*tabInfo, firsts []int) {
	old := map[string]*tabInfo{}
	for i, n := range s.names {
		old[n] = s.infos[i]
	}
	pool := append([]*tabInfo(nil), s.infos...)
	poolIdx := map[*tabInfo]int{}
	for i, p := range pool {
		poolIdx[p] = i
	}
	if added != nil {
		pool = append(pool, added)
		poolIdx[added] = len(pool) - 1
	}
	used := map[*tabInfo]bool{}
	var infos []*tabInfo
	for _, n := range newNames {
		if ti, ok := old[n]; ok {
			infos = append(infos, ti)
			used[ti] = true
			continue
		}
		min, max, ok := parseRange(n)
		if !ok {
			infos = append(infos, newTabInfo(0, 0))
			continue
		}
		var parts []*tabInfo
		for _, p := range pool {
			if !used[p] && p.min >= min && p.max <= max {
				parts = append(parts, p)
			}
		}
		ni := newTabInfo(min, max)
		first := -1
		for _, p := range parts {
			used[p] = true
			if first < 0 || poolIdx[p] < first {
				first = poolIdx[p]
			}
			for k, v := range p.refs {
				ni.refs[k] = v
			}
			for k, v := range p.logs {
				ni.logs[k] = v
			}
			for k := range p.keys {
				ni.keys[k] = true
				// newest part wins: parts are in stack order
				if p.tombs[k] {
					ni.tombs[k] = true
				} else {
					delete(ni.tombs, k)
				}
			}
			ni.merged += p.merged
		}
		ni.first = first
		if first == 0 {
			// tombstones may be dropped when the range includes the oldest table
			for k := range ni.tombs {
				delete(ni.keys, k)
			}
			ni.tombs = map[string]bool{}
		}
		infos = append(infos, ni)
		if len(parts) >= 2 || (len(parts) == 1 && parts[0] != added) {
			mergedRanges = append(mergedRanges, parts)
			firsts = append(firsts, first)
		}
	}
	// tables that vanished entirely (compaction to an empty table)
	var gone []*tabInfo
	for _, p := range pool {
		if !used[p] {
			gone = append(gone, p)
		}
	}
	if len(gone) >= 1 {
		mergedRanges = append(mergedRanges, gone)
		firsts = append(firsts, poolIdx[gone[0]])
		st.emptyResult++
	}
	s.infos = infos
	s.names = append([]string(nil), newNames...)
	return
}

func classifyMerge(parts []*tabInfo, first int, lower []*tabInfo, st *histStats) (nontrivial bool) {
	st.compactions++
	seen := map[string]int{}
	tomb := false
	tombOverLower := false
	for _, p := range parts {
		for k := range p.keys {
			seen[k]++
		}
		for k := range p.tombs {
			tomb = true
			for _, lo := range lower {
				if lo.keys[k] && !lo.tombs[k] {
					tombOverLower = true
				}
			}
		}
	}
	shadow := false
	for _, n := range seen {
		if n >= 2 {
			shadow = true
		}
	}
	if tomb || shadow {
		st.nontrivial++
		nontrivial = true
	}
	if first > 0 && tombOverLower {
		st.upperWithTomb++
	}
	if first == 0 && tomb {
		st.fullWithTomb++
	}
	return
}

// historyHooks lets C14/C16/C17 piggyback on the same workload.
type historyHooks struct {
	onFile   func(path string, opDesc string, ti *tabInfo, gcfg gen.Cfg) // every new *.ref file
	afterOp  func(dir string, st *reftable.Stack, desc string) // after every completed call
	opts     func(r *gen.Rng) gen.TxnOpts
}

// runHistory executes one model-driven history on a fresh directory.
// props is the property charged for view mismatches around compactions.
func runHistory(c *Ctx, genName string, idx int, hooks *historyHooks) {
	r := c.Rep
	rng := gen.NewRng(gen.Mix(c.Seed^0x4157, int64(idx)))
	gcfg := cfgForHistory(rng, idx)
	cfg := rtx.Config(gcfg)
	dir := c.TempDir(fmt.Sprintf("hist%d", idx))
	defer os.RemoveAll(dir)
	hc := histCase{Prop: c.Prop, Seed: c.Seed, Index: idx, Gen: genName, Cfg: gcfg.String()}
	fail := func(props []string, sig, d string) {
		hc2 := hc
		hc2.Detail = d
		hc2.Ops = append([]string(nil), hc.Ops...)
		if len(hc2.Ops) > 80 {
			hc2.Ops = hc2.Ops[len(hc2.Ops)-80:]
		}
		r.Violate(props, sig, d, hc2)
	}
	st, err := stx.Open(dir, cfg)
	if err != nil {
		fail([]string{"C05", "C04"}, "open-empty-dir", "NewStack on an empty directory failed: "+err.Error())
		return
	}
	defer func() {
		if st != nil {
			stx.SafeClose(st)
		}
	}()
	model := gen.NewModel(gcfg.HashSize(), gcfg.ExactLog)
	keys := gen.FlatKeys(3 + rng.Intn(10))
	opts := gen.TxnOpts{Keys: keys, MaxRefs: 1 + rng.Intn(4), Journal: rng.Chance(0.5), DelP: []float64{0.1, 0.3, 0.5}[rng.Intn(3)],
		LogTombP: []float64{0, 0.2, 0.5}[rng.Intn(3)], RichLogs: rng.Chance(0.5), SymP: 0.1, PeeledP: 0.15,
		LogFutP: []float64{0, 0, 0.15}[rng.Intn(3)]}
	if idx%10 == 7 {
		// few keys, many deletions, no logs: full compactions can end in an empty table
		opts = gen.TxnOpts{Keys: keys[:2], MaxRefs: 2, DelP: 0.7, NoLogs: true}
	}
	if hooks != nil && hooks.opts != nil {
		opts = hooks.opts(rng)
		if opts.Keys == nil {
			opts.Keys = keys
		}
	}
	nops := 8 + rng.Intn(50)
	bigFirst := rng.Chance(0.6) && idx%10 != 7
	var tracker stackTracker
	var hs histStats
	seenFiles := map[string]bool{}
	id := 0
	mismatch := false
	for op := 0; op < nops && !mismatch; op++ {
		r.Evaluations++
		kind := "add"
		switch x := rng.Float64(); {
		case op == 0:
		case x < 0.12:
			kind = "compactall"
		case x < 0.20:
			kind = "reopen"
		case x < 0.24:
			kind = "autocompact"
		case x < 0.34 && haveCompactRange:
			kind = "compactrange"
		case x < 0.55 && haveCompactRange && opts.NoLogs:
			kind = "compactrange" // ranges that may cancel out completely
		}
		var added *tabInfo
		desc := kind
		var opErr error
		switch kind {
		case "add":
			id++
			o := opts
			if op == 0 && bigFirst {
				o.Filler = 60 + rng.Intn(200)
				if idx%6 == 0 {
					o.Filler = 500 + rng.Intn(400) // multi-level index after compaction at small block sizes
				}
			} else if rng.Chance(0.1) {
				o.Filler = rng.Intn(40)
			}
			t := gen.GenTxn(rng, id, model, o)
			ui, err := stx.Apply(st, t)
			desc = fmt.Sprintf("add t%d refs=%d logs=%d ui=%d", id, len(t.Refs), len(t.Logs), ui)
			if err != nil {
				opErr = err
				sig := "sequential-add-error|" + errClass(err)
				if rtx.IsPanic(err) {
					sig = "sequential-add-" + PanicSig(err)
				}
				hc.Ops = append(hc.Ops, desc+" ERR "+err.Error())
				fail([]string{"C04"}, sig, fmt.Sprintf("Add of a legal transaction by the only handle failed: %v %s", err, PanicDetail(err)))
				// did it commit anyway?
				mismatch = true
				break
			}
			model.Apply(t, ui)
			added = txnInfo(t, ui, gcfg.HashSize(), gcfg.ExactLog)
		case "compactall":
			if (idx*7+op)%10 < 3 { // (not drawn from rng: the histories stay what they were before this variant existed)
				// with an expiry configuration that expires nothing (every update index
				// is >= 1): the same compaction, and the only one that rewrites a stack
				// of a single table
				desc = "compactall(MinUpdateIndex=1)"
				opErr = rtx.Safe(func() error { return st.CompactAll(&reftable.LogExpirationConfig{MinUpdateIndex: 1}) })
			} else {
				opErr = rtx.Safe(func() error { return st.CompactAll(nil) })
			}
		case "autocompact":
			opErr = rtx.Safe(func() error { return st.AutoCompact() })
		case "compactrange":
			n := len(stx.Names(st))
			first, last := 0, 0
			if n >= 2 {
				first = rng.Intn(n - 1)
				if rng.Chance(0.4) {
					first = 0
				}
				last = first + 1 + rng.Intn(n-first-1)
			}
			desc = fmt.Sprintf("compactrange [%d,%d] of %d", first, last, n)
			opErr = rtx.Safe(func() error { _, e := compactRange(st, first, last); return e })
		case "reopen":
			stx.SafeClose(st)
			st, err = stx.Open(dir, cfg)
			if err != nil {
				st = nil
				hc.Ops = append(hc.Ops, desc)
				fail([]string{"C05"}, "reopen-failed|"+errClass(err), "NewStack failed after a sequential history: "+err.Error())
				return
			}
		}
		hc.Ops = append(hc.Ops, desc)
		if mismatch {
			break
		}
		if opErr != nil && kind != "add" {
			sig := "sequential-" + kind + "-error|" + errClass(opErr)
			if rtx.IsPanic(opErr) {
				sig = "sequential-" + kind + "-" + PanicSig(opErr)
			}
			fail([]string{"C07", "C16"}, sig, fmt.Sprintf("%s by the only handle failed: %v %s", kind, opErr, PanicDetail(opErr)))
			break
		}
		// what happened to the table list?
		names := stx.Names(st)
		lower := append([]*tabInfo(nil), tracker.infos...)
		ranges, firsts := tracker.update(names, added, &hs)
		compacted := false
		for i, parts := range ranges {
			compacted = true
			var lo []*tabInfo
			if firsts[i] > 0 && firsts[i] <= len(lower) {
				lo = lower[:firsts[i]]
			}
			if classifyMerge(parts, firsts[i], lo, &hs) {
				r.Nontrivial(rep.Hash(fmt.Sprint(c.Seed), fmt.Sprint(idx), fmt.Sprint(op)))
			}
		}
		if len(names) > hs.maxDepth {
			hs.maxDepth = len(names)
		}
		// new files -> hooks (C14)
		if hooks != nil && hooks.onFile != nil {
			for i, n := range names {
				if !seenFiles[n] {
					seenFiles[n] = true
					hooks.onFile(filepath.Join(dir, n), desc, tracker.infos[i], gcfg)
				}
			}
		}
		// the handle's view must equal the model
		refs, logs, err := stx.View(st)
		props := []string{"C04"}
		what := "after-add"
		if compacted {
			props = []string{"C07"}
			what = "after-compaction"
		}
		if kind == "reopen" {
			props = []string{"C07", "C04"}
			what = "after-reopen"
		}
		if err != nil {
			sig := what + "|view-error|" + errClass(err)
			if rtx.IsPanic(err) {
				sig = what + "|view-" + PanicSig(err)
			}
			fail(append(props, "C10"), sig, fmt.Sprintf("reading the handle's view failed after %q: %v %s", desc, err, PanicDetail(err)))
			break
		}
		want := model.Dump()
		got := gen.Dump(refs, logs)
		if want != got {
			wr, wl := model.View()
			d := gen.DiffLines(want, got)
			fail(props, what+"|view-mismatch|"+mismatchClass(wr, wl, refs, logs), fmt.Sprintf("after %q (tables %v): %s", desc, names, d))
			break
		}
		// point lookups must agree with the scan (index paths of compacted tables)
		if compacted || op%4 == 0 {
			if d := pointLookups(st, refs, logs); d != "" {
				fail(props, what+"|point-lookup-differs-from-scan", fmt.Sprintf("after %q (tables %v): %s", desc, names, d))
				break
			}
		}
		if op%5 == 4 || op == nops-1 {
			fd, _, err := stx.FreshView(dir, cfg)
			if err != nil {
				fail([]string{"C05", "C07"}, "fresh-open-failed|"+errClass(err), fmt.Sprintf("fresh handle after %q: %v", desc, err))
				break
			}
			if fd != want {
				fail(props, what+"|fresh-view-mismatch", fmt.Sprintf("fresh handle after %q: %s", desc, gen.DiffLines(want, fd)))
				break
			}
		}
		if hooks != nil && hooks.afterOp != nil {
			hooks.afterOp(dir, st, desc)
		}
	}
	r.Count("histories", 1)
	r.Count("compactions", hs.compactions)
	r.Count("compactions_with_tombstone_or_shadowed_record", hs.nontrivial)
	r.Count("upper_range_compactions_with_tombstone_over_lower_table", hs.upperWithTomb)
	r.Count("full_range_compactions_with_tombstone", hs.fullWithTomb)
	r.Count("compactions_to_empty_table", hs.emptyResult)
	r.Max("max_stack_depth", hs.maxDepth)
	if idx%97 == 0 {
		ops := hc.Ops
		if len(ops) > 12 {
			ops = ops[:12]
		}
		r.Sample(map[string]interface{}{"index": idx, "cfg": gcfg.String(), "ops": ops, "compactions": hs.compactions, "upper_range_with_tombstone": hs.upperWithTomb})
	}
}

// RunC07: compaction never changes what readers see.
func RunC07(c *Ctx) {
	r := c.Rep
	r.Rule = "case = one operation (Add with auto-compaction, CompactAll, AutoCompact, reopen) of a model-driven single-handle history (creates, updates, deletes, symrefs, peeled tags, log appends, log tombstones; varied table sizes so that upper ranges above a table holding deleted keys get compacted); after each op the handle's full ref+log scan must equal the reference model, a fresh handle likewise every 5 ops; distinct = (history, op); non-trivial = the op compacted a range containing a tombstone or a shadowed record; plus engine-A executions (scheduler, M-commit on every rename onto tables.list): I/O-fault sweeps over compaction inputs, two handles compacting explicit disjoint/nested/overlapping ranges, compactions parked before each filesystem operation while another handle compacts and adds"
	n := c.N(600, 20000)
	for idx := 0; idx < n; idx++ {
		if !c.Mine(idx) {
			continue
		}
		runHistory(c, "runHistory", idx, nil)
	}
	// table layouts built on purpose: tables holding ONLY log entries (or only refs) beneath
	// a compacted range that holds tombstones for them
	for idx := 0; idx < c.N(48, 400); idx++ {
		if c.Mine(idx) && haveCompactRange && haveAutoCompactSwitch {
			runSectionMixLayout(c, idx)
		}
	}
	// records at the capacity of a block that become the first record of a compacted table
	for idx := 0; idx < 24; idx++ {
		if c.Mine(idx) {
			runCapacityWindow(c, idx)
		}
	}
	// compactions whose reads of the input tables (and other filesystem calls) fail once:
	// under the engine's commit monitor a compaction either fails or commits a table with
	// exactly the content of its inputs - a read error never becomes a shorter table
	e := newEngRunner(c)
	e.compactionOwned = true
	defer e.cleanup()
	idx := 0
	for oi, op := range []string{"compactall", "autocompact", "cr01", "compactexpiry", "add", "addbig"} {
		for ri, rec := range []eng.Recipe{{-3, 0}, {-3, -3, 0}, {200, 40, 0, 0}, {-3, 60, 0}} {
			gcfg := engCfg(oi + ri)
			if rec[0] == -3 {
				gcfg.BlockSize = 512
			}
			if c.Mine(idx) {
				e.faultSweep("io-fault-sweep(compaction inputs)", idx, gcfg, rec, op, "add,compactall", false)
			}
			idx++
		}
	}
	// concurrent compactions of explicitly chosen disjoint / nested / overlapping ranges
	// (two handles; one parked before each of its filesystem operations while the other
	// runs): every commit of a compaction must leave the view unchanged (M-commit)
	idx = e.explicitRanges(idx, false)
	// a compaction parked inside its merge window while another handle compacts / adds
	for ai, a := range []string{"compactall", "autocompact", "compactexpiry"} {
		for bi, b := range []string{"compactall", "autocompact", "add,compactall", "add,add,autocompact"} {
			for ri, rec := range []eng.Recipe{{60, 0, 0}, {200, 40, 0, 0}} {
				if (c.Thorough() || (ai+bi+ri)%2 == 0) && c.Mine(idx) {
					e.sweepPair("compaction-pair-sweep", idx, engCfg(ai+bi+ri), rec, a, b, "", true, false)
				}
				idx++
			}
		}
	}
}

// runSectionMixLayout: a stack laid out table by table (auto-compaction off) so that the
// tables beneath a compacted range hold only log entries, only refs, or both, and the range
// holds tombstones for records living in those tables; then every contiguous range that does
// not start at table 0 is compacted in turn (each on a fresh copy of the layout would be
// costlier; ranges are compacted cumulatively, upper ranges first) and the view is compared
// with the model after each. A tombstone may only disappear when the range includes table 0.
func runSectionMixLayout(c *Ctx, idx int) {
	r := c.Rep
	rng := gen.NewRng(gen.Mix(c.Seed^0xc07a, int64(idx)))
	gcfg := cfgForHistory(rng, idx)
	cfg := rtx.Config(gcfg)
	hs := gcfg.HashSize()
	dir := c.TempDir(fmt.Sprintf("c07m-%d", idx))
	defer os.RemoveAll(dir)
	hc := histCase{Prop: c.Prop, Seed: c.Seed, Index: idx, Gen: "runSectionMixLayout", Cfg: gcfg.String()}
	fail := func(props []string, sig, d string) {
		h := hc
		h.Detail = d
		h.Ops = append([]string(nil), hc.Ops...)
		r.Violate(props, sig, d, h)
	}
	st, err := stx.Open(dir, cfg)
	if err != nil {
		return
	}
	defer func() { stx.SafeClose(st) }()
	setAutoCompact(st, false)
	model := gen.NewModel(hs, gcfg.ExactLog)
	names := []string{"refs/heads/a", "refs/heads/b", "refs/tags/c"}
	// bottom tables: kind 0 = logs only, 1 = refs only, 2 = both
	nbottom := 1 + rng.Intn(2)
	id := 0
	add := func(t *gen.Txn, what string) bool {
		ui, err := stx.Apply(st, t)
		hc.Ops = append(hc.Ops, fmt.Sprintf("%s (refs=%d logs=%d) -> ui=%d %v", what, len(t.Refs), len(t.Logs), ui, err))
		if err != nil {
			fail([]string{"C04"}, "sequential-add-failed|"+errClass(err), fmt.Sprintf("Add by the only handle failed: %v %s", err, PanicDetail(err)))
			return false
		}
		model.Apply(t, ui)
		return true
	}
	for b := 0; b < nbottom; b++ {
		id++
		t := &gen.Txn{ID: id}
		kind := (idx + b) % 3
		for _, n := range names {
			if kind != 1 {
				t.Logs = append(t.Logs, gen.Log{Name: n, New: gen.IDHash(id, 1, hs), User: "u", Email: "e@x", Time: 1000 + uint64(id), Msg: fmt.Sprintf("t%d", id)})
			}
			if kind != 0 {
				t.Refs = append(t.Refs, gen.Ref{Name: n, Kind: gen.KVal, Value: gen.IDHash(id, 2, hs)})
			}
		}
		if !add(t, []string{"bottom table: logs only", "bottom table: refs only", "bottom table: refs and logs"}[kind]) {
			return
		}
	}
	// middle: something unrelated (refs only or logs only), so that the range is mid-stack
	id++
	mid := &gen.Txn{ID: id}
	if rng.Chance(0.5) {
		mid.Refs = []gen.Ref{{Name: "refs/heads/m", Kind: gen.KVal, Value: gen.IDHash(id, 3, hs)}}
	} else {
		mid.Logs = []gen.Log{{Name: "refs/heads/m", New: gen.IDHash(id, 3, hs), User: "u", Email: "e@x", Time: 2000, Msg: "mid"}}
	}
	if !add(mid, "middle table") {
		return
	}
	// tombstones for records of the bottom tables, in one or two tables
	ntomb := 1 + rng.Intn(2)
	for k := 0; k < ntomb; k++ {
		id++
		t := &gen.Txn{ID: id}
		for _, n := range names {
			if rng.Chance(0.6) {
				if rf, ok := model.Refs[n]; ok && rf.Kind != gen.KDel {
					t.Refs = append(t.Refs, gen.Ref{Name: n, Kind: gen.KDel})
				}
			}
			var uis []uint64
			for key, l := range model.Logs {
				if key.Name == n && !l.Del {
					uis = append(uis, key.UI)
				}
			}
			sort.Slice(uis, func(i, j int) bool { return uis[i] < uis[j] })
			for _, u := range uis {
				if rng.Chance(0.6) {
					t.Logs = append(t.Logs, gen.Log{Name: n, UI: u, Del: true})
				}
			}
		}
		gen.SortRefs(t.Refs)
		gen.SortLogs(t.Logs)
		if len(t.Refs)+len(t.Logs) == 0 {
			t.Refs = []gen.Ref{{Name: "refs/heads/z", Kind: gen.KVal, Value: gen.IDHash(id, 4, hs)}}
		}
		if !add(t, "tombstone table") {
			return
		}
	}
	// a top table
	id++
	if !add(&gen.Txn{ID: id, Refs: []gen.Ref{{Name: "refs/heads/top", Kind: gen.KVal, Value: gen.IDHash(id, 5, hs)}}}, "top table") {
		return
	}
	want := model.Dump()
	// compact ranges [first,last] with first >= 1, upper ranges first; then everything
	n := len(stx.Names(st))
	type rg struct{ f, l int }
	var ranges []rg
	for f := n - 2; f >= 1; f-- {
		ranges = append(ranges, rg{f, f + 1})
	}
	ranges = append(ranges, rg{0, -1})
	for _, g := range ranges {
		cur := len(stx.Names(st))
		f, l := g.f, g.l
		if l < 0 || l >= cur {
			l = cur - 1
		}
		if f >= l {
			continue
		}
		r.Evaluations++
		err := rtx.Safe(func() error { _, e := compactRange(st, f, l); return e })
		hc.Ops = append(hc.Ops, fmt.Sprintf("compact [%d,%d] of %d tables -> %v; list %v", f, l, cur, err, mustList(dir)))
		if err != nil {
			fail([]string{"C04"}, "fresh-compactrange-failed|"+errClass(err), fmt.Sprintf("compaction by the only handle failed: %v %s", err, PanicDetail(err)))
			return
		}
		refs, logs, verr := stx.View(st)
		if verr != nil {
			fail([]string{"C07", "C10"}, "layout|view-error-after-compaction|"+errClass(verr), verr.Error())
			return
		}
		if got := gen.Dump(refs, logs); got != want {
			wr, wl := model.View()
			fail([]string{"C07"}, "layout|view-mismatch-after-compaction|"+mismatchClass(wr, wl, refs, logs), fmt.Sprintf("after compacting [%d,%d]: %s", f, l, gen.DiffLines(want, got)))
			return
		}
		if fd, _, err := stx.FreshView(dir, cfg); err != nil || fd != want {
			fail([]string{"C07"}, "layout|fresh-view-mismatch-after-compaction", fmt.Sprintf("after compacting [%d,%d]: err %v %s", f, l, err, gen.DiffLines(want, fd)))
			return
		}
		if f > 0 {
			r.Nontrivial(rep.Hash("c07m", fmt.Sprint(c.Seed), fmt.Sprint(idx), fmt.Sprint(f, l)))
		}
	}
	r.Count("section_mix_layouts", 1)
}

func sortedKeys(m map[string]bool) []string {
	var out []string
	for k := range m {
		out = append(out, k)
	}
	sort.Strings(out)
	return out
}

var _ = strings.Join

// pointLookups reads refs and log entries by name through the handle's merged view and
// compares them with the records the full scan returned.
func pointLookups(st *reftable.Stack, refs []gen.Ref, logs []gen.Log) string {
	m := st.Merged()
	var out string
	err := rtx.Safe(func() error {
		step := 1 + len(refs)/40
		for i := range refs {
			if i%step != 0 && i < len(refs)-4 {
				continue
			}
			rr, err := reftable.ReadRef(m, refs[i].Name)
			if err != nil {
				return fmt.Errorf("ReadRef(%q): %v", refs[i].Name, err)
			}
			if rr == nil {
				out = fmt.Sprintf("ReadRef(%q) finds nothing, the scan returned %s", refs[i].Name, refs[i].Line())
				return nil
			}
			if g := rtx.FromRef(rr); !g.Equal(&refs[i]) {
				out = fmt.Sprintf("ReadRef(%q) = %s, the scan returned %s", refs[i].Name, g.Line(), refs[i].Line())
				return nil
			}
		}
		lstep := 1 + len(logs)/30
		for i := range logs {
			if i%lstep != 0 && i < len(logs)-3 {
				continue
			}
			lr, err := reftable.ReadLogAt(m, logs[i].Name, logs[i].UI)
			if err != nil {
				return fmt.Errorf("ReadLogAt(%q,%d): %v", logs[i].Name, logs[i].UI, err)
			}
			if lr == nil {
				out = fmt.Sprintf("ReadLogAt(%q,%d) finds nothing, the scan returned %s", logs[i].Name, logs[i].UI, logs[i].Line())
				return nil
			}
			if g := rtx.FromLog(lr); !g.Equal(&logs[i]) {
				out = fmt.Sprintf("ReadLogAt(%q,%d) = %s, the scan returned %s", logs[i].Name, logs[i].UI, g.Line(), logs[i].Line())
				return nil
			}
		}
		return nil
	})
	if err != nil {
		return err.Error()
	}
	return out
}
