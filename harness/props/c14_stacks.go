package props

// runC14Stacks feeds tables emitted through Stack.Add and by compaction to the decoder.
// (filled in together with the stack workloads)
func runC14Stacks(c *Ctx) {}
