package props

import (
	"fmt"
	"os"

	"verif/harness/dec"
	"verif/harness/gen"
)

// compareCompacted checks the records decoded from a compaction output against the
// newest-wins overlay of the merged tables: a live record must be present exactly; a
// tombstone must be present, or may be absent only if the range included the oldest
// table; nothing else may be present.
func compareCompacted(info *dec.Info, ti *tabInfo) []dec.Finding {
	gotR := map[string]gen.Ref{}
	for _, r := range info.Refs {
		gotR[r.Name] = r
	}
	for k, w := range ti.refs {
		g, ok := gotR[k]
		if w.Kind == gen.KDel {
			if !ok && ti.first == 0 {
				continue
			}
			if !ok {
				return []dec.Finding{{Rule: "compaction.tombstone-dropped", Msg: fmt.Sprintf("ref tombstone %q missing from a table compacted above older tables", k)}}
			}
		}
		if !ok {
			return []dec.Finding{{Rule: "compaction.records", Msg: fmt.Sprintf("ref %q missing from the compacted table", k)}}
		}
		if !g.Equal(&w) {
			return []dec.Finding{{Rule: "compaction.records", Msg: fmt.Sprintf("compacted table has %s, want %s", g.Line(), w.Line())}}
		}
		delete(gotR, k)
	}
	for k := range gotR {
		return []dec.Finding{{Rule: "compaction.records", Msg: fmt.Sprintf("compacted table holds unexpected ref %q", k)}}
	}
	gotL := map[gen.LogKey]gen.Log{}
	for _, l := range info.Logs {
		gotL[gen.LogKey{Name: l.Name, UI: l.UI}] = l
	}
	for k, w := range ti.logs {
		g, ok := gotL[k]
		if w.Del && !ok && ti.first == 0 {
			continue
		}
		if !ok {
			rule := "compaction.records"
			if w.Del {
				rule = "compaction.tombstone-dropped"
			}
			return []dec.Finding{{Rule: rule, Msg: fmt.Sprintf("log %q@%d missing from the compacted table", k.Name, k.UI)}}
		}
		if !g.Equal(&w) {
			return []dec.Finding{{Rule: "compaction.records", Msg: fmt.Sprintf("compacted table has %s, want %s", g.Line(), w.Line())}}
		}
		delete(gotL, k)
	}
	for k := range gotL {
		return []dec.Finding{{Rule: "compaction.records", Msg: fmt.Sprintf("compacted table holds unexpected log %q@%d", k.Name, k.UI)}}
	}
	return nil
}

// runC14Stacks feeds tables emitted through Stack.Add and by compaction to the decoder.
func runC14Stacks(c *Ctx) {
	r := c.Rep
	n := c.N(250, 8000)
	for idx := 0; idx < n; idx++ {
		if !c.Mine(idx) {
			continue
		}
		hooks := &historyHooks{}
		hooks.onFile = func(path, desc string, ti *tabInfo, gcfg gen.Cfg) {
			data, err := os.ReadFile(path)
			if err != nil {
				return // already compacted away
			}
			r.Evaluations++
			cs := map[string]interface{}{"prop": "C14", "seed": c.Seed, "index": idx, "generator": "runHistory(stack part)", "cfg": gcfg.String(), "op": desc}
			cfg := gcfg
			origin := "compaction"
			if ti.exact {
				origin = "stack-add"
			}
			info, findings := dec.Decode(data, dec.Options{KnownCfg: &cfg})
			if len(findings) == 0 {
				if ti.exact {
					var refs []gen.Ref
					for _, x := range ti.refs {
						refs = append(refs, x)
					}
					gen.SortRefs(refs)
					var logs []gen.Log
					for _, x := range ti.logs {
						logs = append(logs, x)
					}
					gen.SortLogs(logs)
					findings = dec.CompareRecords(info, refs, logs)
				} else if ti.first >= 0 {
					findings = compareCompacted(info, ti)
				}
				if len(findings) == 0 && info != nil && (info.Min != ti.min || info.Max != ti.max) {
					findings = []dec.Finding{{Rule: "header.limits", Msg: fmt.Sprintf("header range [%d,%d], file name / merged range [%d,%d]", info.Min, info.Max, ti.min, ti.max)}}
				}
			}
			r.Count("files_decoded", 1)
			r.SetAdd("origins", origin)
			if len(findings) > 0 {
				msg := ""
				for _, f := range findings {
					msg += f.String() + "\n"
				}
				r.Violate([]string{"C14"}, origin+"|"+findings[0].Rule, msg, cs)
				return
			}
			r.Count("blocks_decoded", len(info.Blocks))
			r.Count(origin+"_files", 1)
			if len(info.Blocks) >= 2 {
				r.Nontrivial(hashBytes(data))
			}
		}
		runHistory(c, "runHistory", idx, hooks)
	}
}
