package props

import (
	"time"
	"fmt"
	"os"
	"path/filepath"
	"strings"

	"github.com/google/reftable/verifvfs/vos"
	"verif/harness/eng"
	"verif/harness/gen"
	"verif/harness/rep"
)

// RunC05: tables.list always names an openable, ordered stack of complete tables.
func RunC05(c *Ctx) {
	r := c.Rep
	r.Rule = engRule("Deciding monitor for C05: M-dir after EVERY single filesystem operation of every process (tables.list parsed independently; every named file exists, passes the independent decoder's structural pass, has the stack's hash size; ranges strictly increasing; a fresh NewStack succeeds and shows the last committed state) plus: no remove/rename-away of a file the current list names. A process crash does not change the directory, so the state observed after operation k is the state a crash after k leaves.")
	e := newEngRunner(c)
	defer e.cleanup()
	aKinds := []string{"compactall", "autocompact", "add", "addmulti", "clean", "close", "compactexpiry", "reopen", "addmultistale"}
	bSeqs := []string{"compactall", "autocompact", "add,compactall", "add,add,autocompact", "clean", "close", "add"}
	recs := []eng.Recipe{{0, 0}, {60, 0, 0}, {200, 40, 0, 0}}
	cases := pairCases(aKinds, bSeqs, recs, true)
	idx := 0
	for i, pc := range cases {
		if !c.Thorough() && i%2 == 1 && len(pc.rec) != 3 {
			idx++
			continue
		}
		if c.Mine(idx) {
			e.sweepPair("pair-sweep+dir-check-after-every-op", idx, engCfg(pc.cfg), pc.rec, pc.a, pc.b, pc.c, pc.preOpen, true)
		}
		idx++
	}
	// two and three concurrent compactions of disjoint / overlapping ranges
	triples := [][3]string{{"autocompact", "autocompact", "add,add"}, {"compactall", "autocompact", "add"}, {"autocompact", "compactall", "add,add"}, {"autocompact", "add,add,autocompact", "compactall"}}
	trecs := []eng.Recipe{{60, 0, 0}, {200, 40, 0, 0}, {200, 0, 0, 0, 0}, {-1, -2, 0, 0}}
	step := 3
	if c.Thorough() {
		step = 1
	}
	for ti, t := range triples {
		for ri, rec := range trecs {
			if c.Mine(idx) {
				e.sweepTripleX("triple-sweep(compactions)", idx, engCfg(ti+ri), rec, t[0], t[1], t[2], step, step, true)
			}
			idx++
		}
	}
	idx = e.explicitRanges(idx, true)
	idx = e.lateClockPairs(idx, cases, c.N(17, 5), true)
	idx = e.coarseMtimePairs(idx, cases, c.N(11, 4), true)
	// I/O errors: a failed operation must not publish a list naming missing tables
	idx = e.staleCleanupFamilies(idx)
	idx = e.faultFamilies(idx, true, "", 2)
	for i := 0; i < c.N(500, 20000); i++ {
		if c.Mine(idx) {
			e.randomFaultScenario("random+io-fault", idx, c.Seed, pctKinds, true)
		}
		idx++
	}
	kinds := []string{"add", "add", "addbig", "compactall", "autocompact", "autocompact", "clean", "close,open", "reopen", "compactexpiry", "addmulti", "cr01", "cr12", "cr23"}
	n := c.N(2000, 60000)
	for i := 0; i < n; i++ {
		if c.Mine(idx) {
			e.randomScenarioX("random(compaction-heavy)", idx, c.Seed, kinds, true, 0)
		}
		idx++
	}
	runEngB(c, c.N(8, 200))
	sampleEng(c, e)
}

// RunC08: locks are exclusive and only released by their owner.
func RunC08(c *Ctx) {
	r := c.Rep
	r.Rule = engRule("Deciding monitor for C08: M-lock at every create/remove/rename of a *.lock path (ledger path -> creator and inode: a successful create while a live holder exists, a remove/rename by a process other than the creator, or of a different inode, is a violation) and at every commit: the bytes of the new tables.list must equal what the committer wrote through the descriptor of the lock file it created.")
	e := newEngRunner(c)
	defer e.cleanup()
	aKinds := []string{"add", "addmulti", "compactall", "autocompact", "clean", "compactexpiry"}
	bSeqs := []string{"add", "compactall", "autocompact", "clean", "add,add", "addmulti"}
	recs := []eng.Recipe{{0, 0}, {60, 0, 0}, {200, 40, 0, 0}}
	cases := pairCases(aKinds, bSeqs, recs, false)
	idx := 0
	for i, pc := range cases {
		if !c.Thorough() && i%2 == 1 {
			idx++
			continue
		}
		if c.Mine(idx) {
			e.sweepPair("pair-sweep", idx, engCfg(pc.cfg), pc.rec, pc.a, pc.b, pc.c, pc.preOpen, false)
		}
		idx++
	}
	// contention on the re-lock: compactions and an Add colliding; overlapping ranges
	triples := [][3]string{{"autocompact", "add", "add"}, {"compactall", "compactall", "add"}, {"autocompact", "autocompact", "add"}, {"compactall", "add", "clean"}, {"autocompact", "compactall", "compactall"}, {"compactall", "clean", "add"}}
	trecs := []eng.Recipe{{60, 0, 0}, {200, 40, 0, 0}}
	step := 2
	if c.Thorough() {
		step = 1
	}
	for ti, t := range triples {
		for ri, rec := range trecs {
			if c.Mine(idx) {
				e.sweepTriple("triple-sweep(lock contention)", idx, engCfg(ti+ri), rec, t[0], t[1], t[2], step, step)
			}
			idx++
		}
	}
	// the same windows when a long time has passed since the files were written: every
	// lock, list and table looks decades old to the code (virtual clock at 2100) - a lock
	// stays its creator's however long it has been held
	// (own index space: the older families keep their indices, PRNG seeds and shards)
	e.clockAhead = lateClock
	lidx := 5000000
	for i, pc := range cases {
		if len(pc.rec) != 3 || (!c.Thorough() && i%3 != 0) {
			continue
		}
		if c.Mine(lidx) {
			e.sweepPair("late-clock pair-sweep", lidx, engCfg(pc.cfg), pc.rec, pc.a, pc.b, pc.c, pc.preOpen, false)
		}
		lidx++
	}
	for ti, t := range triples[:3] {
		if c.Mine(lidx) {
			e.sweepTriple("late-clock triple-sweep", lidx, engCfg(ti), trecs[0], t[0], t[1], t[2], step+1, step+1)
		}
		lidx++
	}
	e.clockAhead = 0
	// compactions of explicitly chosen overlapping / nested / disjoint ranges (table locks)
	e.explicitRanges(8000000, false)
	// I/O errors on lock files inside another process's lock windows
	idx = e.faultPauseFamilies(idx)
	// crash of a lock holder followed by other writers
	for ci, cr := range [][2]string{{"add", "add,compactall"}, {"compactall", "add,clean"}, {"autocompact", "compactall,add"}} {
		for ri, rec := range trecs {
			if c.Mine(idx) {
				e.crashSweep("crash-of-lock-holder", idx, engCfg(ci+ri), rec, cr[0], cr[1], false)
			}
			idx++
		}
	}
	kinds := []string{"add", "add", "compactall", "autocompact", "autocompact", "clean", "addmulti", "compactexpiry", "addempty"}
	n := c.N(2500, 120000)
	for i := 0; i < n; i++ {
		if c.Mine(idx) {
			e.randomScenarioX("random(writers)", idx, c.Seed, kinds, false, 3)
		}
		idx++
	}
	sampleEng(c, e)
}

// lateClockPairs re-runs every stride-th pair sweep of a check with the virtual clock set
// decades after the files' time stamps (every lock, temporary file, table and list looks
// very old to the code, as after a long pause): age must not change who owns what.
func (e *engRunner) lateClockPairs(idx0 int, cases []pairCase, stride int, every bool) int {
	// own index space: the families that existed before keep their indices (hence their
	// PRNG seeds and shards) - several stored seeded changes are caught by one schedule
	idx := 5000000
	defer func() { e.c.Rep.Count("scenario_cases_late_clock", idx-5000000) }()
	e.clockAhead = lateClock
	defer func() { e.clockAhead = 0 }()
	for i, pc := range cases {
		if i%stride != 0 {
			continue
		}
		if e.c.Mine(idx) {
			e.sweepPair("late-clock pair-sweep", idx, engCfg(pc.cfg), pc.rec, pc.a, pc.b, pc.c, pc.preOpen, every)
		}
		idx++
	}
	return idx0
}

// coarseMtimePairs re-runs every stride-th pair sweep on a "file system with coarse time
// stamps": every FileInfo the code obtains reports the same modification time, as files
// written within one timer tick (or one second, on file systems with that granularity) do.
func (e *engRunner) coarseMtimePairs(idx0 int, cases []pairCase, stride int, every bool) int {
	idx := 6000000 // own index space, see lateClockPairs
	e.coarseMtime = coarseMtime
	defer func() { e.coarseMtime = 0 }()
	for i, pc := range cases {
		if i%stride != 1%stride {
			continue
		}
		if e.c.Mine(idx) {
			e.sweepPair("coarse-mtime pair-sweep", idx, engCfg(pc.cfg), pc.rec, pc.a, pc.b, pc.c, pc.preOpen, every)
		}
		idx++
	}
	// rewrites by B that leave the NUMBER of tables (hence the size of tables.list)
	// unchanged while A's pre-opened handle goes stale: [a b] -> [ab] -> [ab c], and
	// [a] -> [a b] -> [ab] through the auto-compaction of B's Add
	for ri, rb := range []struct {
		rec eng.Recipe
		b   string
	}{{eng.Recipe{0, 0}, "compactall,add"}, {eng.Recipe{0}, "add"}, {eng.Recipe{60, 0, 0}, "compactall,add,add"}} {
		for ai, a := range []string{"add", "compactall", "clean", "addmulti"} {
			if e.c.Mine(idx) {
				e.sweepPair("coarse-mtime pair-sweep(count-preserving rewrite)", idx, engCfg(ri+ai), rb.rec, a, rb.b, "", true, every)
			}
			idx++
		}
	}
	return idx0
}

// coarseMtime: larger than any run, so that all files of a scenario carry equal stamps
const coarseMtime = 20 * 365 * 24 * time.Hour

// lateClock: 2020-01-01 (virtual base) + 80 years
const lateClock = 80 * 365 * 24 * time.Hour

// crashSweep: A=[aDesc] is killed before its k-th filesystem operation, for every k;
// B=[bDesc] (opened after the crash) continues. With every=true M-dir runs after every op.
func (e *engRunner) crashSweep(family string, idx int, gcfg gen.Cfg, rec eng.Recipe, aDesc, bDesc string, every bool) (points int, complete bool) {
	c := e.c
	r := c.Rep
	// uninterrupted run first: number of hooked operations of A
	nops := 0
	{
		ts := newTxnSource(gen.Mix(c.Seed, int64(idx)*1000+3), gcfg.HashSize())
		sc := &eng.Scenario{Name: fmt.Sprintf("A=[%s] uninterrupted, then B=[%s]", aDesc, bDesc), GCfg: gcfg, Init: rec,
			Scripts: [][]eng.Call{append([]eng.Call{{Kind: "open"}}, ts.mkCalls(aDesc)...), append([]eng.Call{{Kind: "open"}}, ts.mkCalls(bDesc)...)},
			Policy:  &eng.Seq{}, CheckDirEvery: every}
		res := e.run(sc, family, idx)
		if res.SetupErr != nil || res.Aborted {
			return 0, false
		}
		nops = res.Procs[0].NOps()
	}
	for k := 1; k <= nops; k++ {
		ts := newTxnSource(gen.Mix(c.Seed, int64(idx)*1000+3), gcfg.HashSize())
		var crashDump string
		var crashOK bool
		sc := &eng.Scenario{Name: fmt.Sprintf("A=[%s] killed before its filesystem operation %d of %d, then B=[%s]", aDesc, k, nops, bDesc), GCfg: gcfg, Init: rec,
			Scripts: [][]eng.Call{append([]eng.Call{{Kind: "open"}}, ts.mkCalls(aDesc)...), append([]eng.Call{{Kind: "open"}}, ts.mkCalls(bDesc)...)},
			Policy:  &eng.Seq{}, CrashProc: 0, CrashAt: k, CheckDirEvery: every}
		sc.AfterCrash = func(w *eng.World) {
			crashDump, crashOK = w.CrashCheck()
		}
		res := e.run(sc, family, idx)
		if res.SetupErr != nil {
			return points, false
		}
		points++
		r.Count("crash_points_enumerated", 1)
		r.SetAdd("crashed_call_kinds", firstWord(aDesc))
		if crashOK {
			if crashDump == res.W.Versions[0].Dump {
				r.Count("crash_left_state_before", 1)
			} else {
				r.Count("crash_left_state_after", 1)
			}
		}
		// non-trivial: the crash point lies after the operation's first mutating call
		if res.W != nil && len(res.W.DirStates) > 1 {
			r.Nontrivial(rep.Hash("crash", family, gcfg.String(), rec.String(), aDesc, bDesc, fmt.Sprint(k)))
		}
	}
	r.Count("ops_fully_enumerated", 1)
	return points, true
}

// faultSweep: the k-th filesystem operation of A=[aDesc] fails with an injected I/O error,
// for every k (removals excepted); A continues with the rest of its script, then B=[bDesc]
// runs. M-own (idle process owns nothing, directory = list + listed tables at
// quiescence), M-dir, M-view, M-commit and the final-state fold stay in force.
func (e *engRunner) faultSweep(family string, idx int, gcfg gen.Cfg, rec eng.Recipe, aDesc, bDesc string, every bool) (points int) {
	c := e.c
	r := c.Rep
	mk := func(k int) *eng.Scenario {
		ts := newTxnSource(gen.Mix(c.Seed, int64(idx)*1000+31), gcfg.HashSize())
		name := fmt.Sprintf("A=[%s] uninterrupted, then B=[%s]", aDesc, bDesc)
		if k > 0 {
			name = fmt.Sprintf("A=[%s] with an I/O error injected at its filesystem operation %d, then B=[%s]", aDesc, k, bDesc)
		}
		return &eng.Scenario{Name: name, GCfg: gcfg, Init: rec,
			Scripts: [][]eng.Call{append([]eng.Call{{Kind: "open"}}, ts.mkCalls(aDesc)...), append([]eng.Call{{Kind: "open"}}, ts.mkCalls(bDesc)...)},
			Policy:  &eng.Seq{}, FaultProc: 0, FaultAt: k, CheckDirEvery: every, HookReads: !every}
	}
	res := e.run(mk(0), family, idx)
	if res.SetupErr != nil || res.Aborted {
		return 0
	}
	nops := res.Procs[0].NOps()
	for k := 1; k <= nops+2; k++ {
		res := e.run(mk(k), family, idx)
		if res.SetupErr != nil {
			return points
		}
		if res.Procs[0].FaultFired == nil {
			continue // the k-th operation was a removal, or the run was shorter
		}
		points++
		if os.Getenv("VERIF_DEBUG_FAULT") != "" {
			fmt.Fprintf(os.Stderr, "FAULT idx=%d a=%s rec=%v cfg=%s k=%d/%d op=%s results=%v\n", idx, aDesc, rec, gcfg.String(), k, nops, res.Procs[0].FaultFired.String(), res.Actors[0].Results)
			if os.Getenv("VERIF_DEBUG_FAULT") == "2" {
				for _, o := range res.W.S.Trace {
					fmt.Fprintf(os.Stderr, "    %s\n", o.String())
				}
			}
		}
		r.Count("io_faults_injected", 1)
		r.Count("calls_failed_by_io_fault", res.W.FaultErrors)
		op := res.Procs[0].FaultFired
		r.SetAdd("io_fault_sites", op.Kind+"|"+vos.PathClass(op.Path)+"|"+op.Site+"|in "+op.Call)
		r.Nontrivial(rep.Hash("fault", family, gcfg.String(), rec.String(), aDesc, bDesc, fmt.Sprint(k)))
	}
	return points
}

// removeFaultSweep: the unlink of a table file fails (EIO/EACCES-like) - at every removal of
// a *.ref file that A=[aDesc] performs, in turn. With proDesc != "" process P runs first and
// makes A's pre-opened handle stale, so that A's reload drops tables (and tries to unlink
// them). B=[bDesc] continues afterwards. The file whose unlink failed may stay; everything
// else holds: A's handle stays readable and shows one committed version (M-view), the
// list stays openable (M-dir), nothing else is left behind (M-own), no panic.
func (e *engRunner) removeFaultSweep(family string, idx int, gcfg gen.Cfg, rec eng.Recipe, proDesc, aDesc, bDesc string) (points int) {
	c := e.c
	mk := func(k int) *eng.Scenario {
		ts := newTxnSource(gen.Mix(c.Seed, int64(idx)*1000+43), gcfg.HashSize())
		scripts := [][]eng.Call{ts.mkCalls(aDesc), append([]eng.Call{{Kind: "reopen"}}, ts.mkCalls(bDesc)...), ts.mkCalls(proDesc)}
		name := fmt.Sprintf("first P=[%s]; then A=[%s] (pre-opened) whose unlink of a table file fails at its operation %d; then B=[%s]", proDesc, aDesc, k, bDesc)
		return &eng.Scenario{Name: name, GCfg: gcfg, Init: rec, Scripts: scripts, Policy: &eng.Sweep1After{First: 2, A: 0, K: 1 << 30},
			PreOpen: true, SkipTmpWrites: true, FaultProc: 0, FaultAt: k, FaultTableRemoves: true}
	}
	res := e.run(mk(0), family, idx)
	if res.SetupErr != nil || res.Aborted || res.W == nil {
		return 0
	}
	var ks []int
	for _, o := range res.W.S.Trace {
		if o.Proc == 0 && o.Kind == "remove" && vos.PathClass(o.Path) == "ref" {
			ks = append(ks, o.N)
		}
	}
	for _, k := range ks {
		res := e.run(mk(k), family, idx)
		if res.SetupErr != nil {
			return points
		}
		if res.Procs[0].FaultFired == nil {
			continue
		}
		points++
		c.Rep.Count("table_unlink_faults_injected", 1)
		op := res.Procs[0].FaultFired
		c.Rep.SetAdd("io_fault_sites", op.Kind+"|"+vos.PathClass(op.Path)+"|"+op.Site+"|in "+op.Call)
		c.Rep.Nontrivial(rep.Hash("rmfault", family, gcfg.String(), rec.String(), proDesc, aDesc, bDesc, fmt.Sprint(k)))
	}
	return points
}

// removeFaultFamilies: failing unlinks of table files in reloads of stale handles, in
// compactions and in Close/Clean.
func (e *engRunner) removeFaultFamilies(idx0 int) int {
	idx := 7000000 // own index space, see lateClockPairs
	c := e.c
	cases := [][3]string{ // prologue, A, B
		{"add,compactall", "add", "add,fresh"}, {"compactall", "read,add,read", "compactall"}, {"add,add,autocompact", "add", "clean,add"},
		{"cr01", "add,read", "add"}, {"cr12,add", "read,add", "compactall,fresh"}, {"", "compactall", "add,fresh"}, {"", "autocompact,read", "add"},
		{"", "add,add,add", "compactall"}, {"compactall", "close", "add,fresh"}, {"compactall,add", "clean,read", "add"}, {"", "compactexpiry", "add,fresh"}}
	recs := []eng.Recipe{{0, 0}, {60, 0, 0}, {200, 40, 0, 0}, {0, 0, 0, 0, 0}}
	for ci, cs := range cases {
		for ri, rec := range recs {
			if strings.HasPrefix(cs[0], "cr") && !haveCompactRange {
				idx++
				continue
			}
			if (c.Thorough() || (ci+ri)%2 == 0) && c.Mine(idx) {
				e.removeFaultSweep("table-unlink-fault-sweep", idx, engCfg(ci+ri), rec, cs[0], cs[1], cs[2])
			}
			idx++
		}
	}
	return idx0
}

// sweepSlowClock: like sweepPair (A parked before each of its operations while B runs), with
// the virtual clock advancing one second per reading.
func (e *engRunner) sweepSlowClock(family string, idx int, gcfg gen.Cfg, rec eng.Recipe, aDesc, bDesc string, preOpen bool) int {
	n := 0
	for k := 1; k < 300; k++ {
		ts := newTxnSource(gen.Mix(e.c.Seed, int64(idx)*1000+41), gcfg.HashSize())
		scripts := [][]eng.Call{ts.mkCalls(aDesc), ts.mkCalls(bDesc)}
		if !preOpen {
			for i := range scripts {
				scripts[i] = append([]eng.Call{{Kind: "open"}}, scripts[i]...)
			}
		}
		pol := &eng.Sweep1{A: 0, K: k}
		sc := &eng.Scenario{Name: fmt.Sprintf("slow clock (2 s per reading): A=[%s] paused before its op %d while B=[%s] runs; preopen=%v", aDesc, k, bDesc, preOpen),
			GCfg: gcfg, Init: rec, Scripts: scripts, Policy: pol, SkipTmpWrites: true, PreOpen: preOpen, ClockStep: 2 * time.Second}
		res := e.run(sc, family, idx)
		n++
		if res.SetupErr != nil || !pol.Paused {
			break
		}
	}
	return n
}

// faultPauseSweep: process F=[fDesc] takes an injected I/O error at its operation k while
// process B=[bDesc] is parked before its j-th operation (for every j): the error paths of F
// run inside every window of B - in particular while B holds tables.list.lock or table
// locks. k ranges over F's operations on lock files and its renames (quick) or over all
// its operations (thorough).
func (e *engRunner) faultPauseSweep(family string, idx int, gcfg gen.Cfg, rec eng.Recipe, fDesc, bDesc string) int {
	c := e.c
	mk := func(k, j int) (*eng.Scenario, *eng.Sweep1) {
		ts := newTxnSource(gen.Mix(c.Seed, int64(idx)*1000+37), gcfg.HashSize())
		pol := &eng.Sweep1{A: 1, K: j}
		return &eng.Scenario{Name: fmt.Sprintf("F=[%s] takes an I/O error at its operation %d while B=[%s] is parked before its operation %d", fDesc, k, bDesc, j), GCfg: gcfg, Init: rec,
			Scripts: [][]eng.Call{ts.mkCalls(fDesc), ts.mkCalls(bDesc)}, Policy: pol, PreOpen: true, SkipTmpWrites: true, FaultProc: 0, FaultAt: k}, pol
	}
	// F alone, to learn its operations
	sc, _ := mk(0, 1<<30)
	sc.Policy = &eng.Seq{}
	res := e.run(sc, family, idx)
	if res.SetupErr != nil || res.Aborted {
		return 0
	}
	var ks []int
	for _, op := range res.W.S.Trace {
		if op.Proc != 0 {
			continue
		}
		cls := vos.PathClass(op.Path)
		lockOp := (cls == "list.lock" || cls == "ref.lock") && (op.Kind == "create" || op.Kind == "write" || op.Kind == "close")
		if c.Thorough() || lockOp || op.Kind == "rename" {
			ks = append(ks, op.N)
		}
	}
	n := 0
	for _, k := range ks {
		for j := 1; j < 200; j++ {
			sc, pol := mk(k, j)
			res := e.run(sc, family, idx)
			n++
			if res.SetupErr != nil || !pol.Paused {
				break
			}
			if res.Procs[0].FaultFired != nil {
				c.Rep.Count("io_faults_injected", 1)
				op := res.Procs[0].FaultFired
				c.Rep.SetAdd("io_fault_sites", op.Kind+"|"+vos.PathClass(op.Path)+"|"+op.Site+"|in "+op.Call)
			}
		}
	}
	return n
}

// faultPauseFamilies: the (faulting call, parked call) pairs used by C04 and C08.
func (e *engRunner) faultPauseFamilies(idx int) int {
	c := e.c
	fs := []string{"compactall", "autocompact", "add", "cr01", "clean", "compactexpiry"}
	bs := []string{"add", "compactall", "autocompact"}
	for fi, f := range fs {
		for bi, b := range bs {
			for ri, rec := range []eng.Recipe{{0, 0}, {60, 0, 0}, {0, 0, 0, 0}} {
				use := c.Thorough() || (fi+bi+ri)%3 == 0
				if use && c.Mine(idx) {
					e.faultPauseSweep("io-fault-inside-window-sweep", idx, engCfg(fi+bi+ri), rec, f, b)
				}
				idx++
			}
		}
	}
	return idx
}

// staleCleanupFamilies: a handle that is stale in various ways (tables below / in the middle
// of what it holds were compacted away, tables were added on top, everything was merged)
// runs Close, Clean or a reopen: none of them may remove a table the current list names.
func (e *engRunner) staleCleanupFamilies(idx int) int {
	if !haveCompactRange {
		return idx
	}
	c := e.c
	pros := []string{"cr01", "cr12", "cr01,add", "add,cr01", "cr23", "add", "compactall", "cr01,cr01"}
	as := []string{"close", "clean", "clean,close", "reopen", "read,close"}
	for pi, pro := range pros {
		for ai, a := range as {
			for ri, rec := range []eng.Recipe{{0, 0, 0}, {60, 0, 0}, {0, 0, 0, 0, 0}, {200, 40, 0, 0}} {
				if c.Mine(idx) {
					e.sweepStale("stale-handle-cleanup-sweep", idx, engCfg(pi+ai+ri), rec, pro, a, []string{"", "add"}[(pi+ai+ri)%2])
				}
				idx++
			}
		}
	}
	return idx
}

// faultFamilies: every filesystem operation of every call kind fails once (quick tier:
// one in `sample` of the (call, initial stack, continuation) combinations).
func (e *engRunner) faultFamilies(idx int, every bool, suffix string, sample int) int {
	c := e.c
	fops := []string{"add", "addbig", "addmulti", "compactall", "autocompact", "compactexpiry", "clean", "addempty", "add,add,add", "reopen", "cr01", "cr12", "addbad", "addmultiabandon", "close"}
	fconts := []string{"add,compactall", "clean,add"}
	for oi, op := range fops {
		for ri, rec := range []eng.Recipe{{}, {0, 0}, {200, 40, 0, 0}, {-1, -2, 0}, {0, 0, 0, 0, 0, 0, 0}, {-3, 0}} {
			for ci, cont := range fconts {
				use := c.Thorough() || (oi+ri+ci)%sample == 0
				gcfg := engCfg(oi + ri)
				if len(rec) > 0 && rec[0] == -3 {
					// a log section of a dozen blocks: reads of later log blocks can fail
					gcfg.BlockSize = 512
					use = use || strings.HasPrefix(op, "compact") || op == "cr01"
				}
				if use && c.Mine(idx) {
					e.faultSweep("io-fault-sweep", idx, gcfg, rec, op+suffix, cont, every)
				}
				idx++
			}
		}
	}
	return idx
}

// RunC06: a crash at any point leaves the previous or the next committed state.
func RunC06(c *Ctx) {
	r := c.Rep
	r.Rule = "case = one execution in which process A (Add, Add+Add, multi-table Addition, CompactAll, CompactAll with expiry, Add triggering auto-compaction, AutoCompact, Clean, Close, open) is killed immediately before its k-th hooked filesystem operation (descriptors closed, no cleanup runs), for EVERY k of the uninterrupted execution (table-body writes included), over varied initial stacks and both hash sizes; at the crash point and after every earlier operation: M-dir holds, a fresh NewStack succeeds and shows exactly the last committed state (which M-commit proved to be the state before or after the interrupted call, never a partial one), acknowledged Adds are in it; then process B performs 1..3 further calls (reads must succeed; writers may only fail with ErrLockFailure while a dead process's lock file exists) and the final view equals the model. distinct = (initial stack, config, operation, k, continuation); non-trivial = the crash point lies after the operation's first directory-changing call"
	e := newEngRunner(c)
	defer e.cleanup()
	ops := []string{"add", "add,add", "addmulti", "compactall", "compactexpiry", "addbig", "autocompact", "clean", "close", "add,compactall", "addempty", "addbad"}
	conts := []string{"fresh,add,fresh", "add,compactall,fresh", "clean,add", "fresh,compactall,close", "add,add,add", "adddel,addother,addother,addother,fresh"}
	recs := []eng.Recipe{{}, {0}, {0, 0}, {60, 0, 0}, {200, 40, 0, 0}, {0, 0, 0, 0, 0, 0, 0}}
	idx := 0
	total := 0
	// compactions whose result is empty (everything in the range cancels out)
	for ri, rec := range []eng.Recipe{{-1, -2}, {-1, -2, 0}, {-1, -2, 0, 0}} {
		for oi, op := range []string{"compactall", "cr01", "autocompact", "add"} {
			for ci, cont := range []string{"fresh,add,fresh", "add,compactall,fresh"} {
				if (op == "cr01" && !haveCompactRange) || (ri == 0 && op == "add") {
					idx++
					continue
				}
				use := c.Thorough() || (ri+oi+ci)%2 == 0
				if use && c.Mine(idx) {
					n, _ := e.crashSweep("crash-sweep(empty compaction result)", idx, engCfg(ri+oi), rec, op, cont, true)
					total += n
				}
				idx++
			}
		}
	}
	for ri, rec := range recs {
		for oi, op := range ops {
			for ci, cont := range conts {
				use := c.Thorough() || (ri+oi+ci)%3 == 0
				if use && c.Mine(idx) {
					n, _ := e.crashSweep("crash-sweep", idx, engCfg(ri+oi), rec, op, cont, true)
					total += n
				}
				idx++
			}
		}
	}
	r.Count("crash_sweeps_planned", idx)
	// real processes: one worker is SIGKILLed in every round, the others continue
	engBKillAll = true
	runEngB(c, c.N(6, 200))
	engBKillAll = false
	sampleEng(c, e)
}

// RunC10: a handle's view is one committed snapshot and stays readable under churn.
func RunC10(c *Ctx) {
	r := c.Rep
	r.Rule = engRule("Deciding monitor for C10: M-view. After every completed call of a handle (open, Add success or failure, compaction, Clean) and at explicit read calls placed between other processes' operations, the handle performs full ref and log scans, a ReadRef and a RefsFor through Stack.Merged(): every read must succeed, the handle's table names must equal the names of ONE recorded version of tables.list, not older than the version it held before, and the scans must equal what a fresh reader of that version saw.")
	e := newEngRunner(c)
	defer e.cleanup()
	// R = process 0, paused at each of its hooks (incl. inside reload: after the list
	// read, between table opens) while others add and compact
	aKinds := []string{"add,read", "open,read", "reopen,read", "read,add,read", "compactall,read", "clean,read", "autocompact,read", "addempty,read"}
	bSeqs := []string{"add,compactall", "add,add,add", "compactall,add", "add,compactall,add,compactall", "addbig,add,autocompact", "compactexpiry,add"}
	recs := []eng.Recipe{{0, 0}, {60, 0, 0}, {200, 40, 0, 0}, {0, 0, 0, 0, 0, 0, 0}}
	cases := pairCases(aKinds, bSeqs, recs, true)
	idx := 0
	for i, pc := range cases {
		if !c.Thorough() && i%3 != 0 {
			idx++
			continue
		}
		if c.Mine(idx) {
			e.sweepPair("reader-sweep", idx, engCfg(pc.cfg), pc.rec, pc.a, pc.b, pc.c, pc.preOpen, false)
		}
		idx++
	}
	triples := [][3]string{{"add,read", "add,compactall", "add,compactall"}, {"reopen,read", "compactall", "add,add"}, {"add,read", "autocompact", "add,add,compactall"}}
	trecs := []eng.Recipe{{60, 0, 0}, {200, 40, 0, 0}}
	step := 3
	if c.Thorough() {
		step = 1
	}
	for ti, t := range triples {
		for ri, rec := range trecs {
			if c.Mine(idx) {
				e.sweepTriple("reader-triple-sweep", idx, engCfg(ti+ri), rec, t[0], t[1], t[2], step, step)
			}
			idx++
		}
	}
	// a handle that is already stale reloads while the list keeps changing: the reload's
	// first attempt fails half way (a listed table vanishes) and its retry must not keep
	// anything of the failed attempt
	pros := []string{"compactall,add", "add,compactall", "add,add,compactall,add", "compactall"}
	as := []string{"add,read", "addempty,read", "add,read,add,read", "clean,read", "compactall,read"}
	bs := []string{"add", "add,add", "add,compactall", "compactall,add", "addbig,add"}
	for pi, pro := range pros {
		for ai, a := range as {
			for bi, b := range bs {
				for ri, rec := range []eng.Recipe{{60, 0, 0}, {0, 0}, {200, 40, 0, 0}} {
					use := c.Thorough() || ri == 0 || (pi+ai+bi+ri)%3 == 0
					if use && c.Mine(idx) {
						run := func() { e.sweepStale("stale-reader-sweep", idx, engCfg(pi+ai+ri), rec, pro, a, b) }
						if idx%4 == 1 {
							e.onDisk(run)
						} else {
							run()
						}
					}
					idx++
				}
			}
		}
	}
	// the handle is behind by several tables; a compaction of the newest ones lands
	// between two table opens of its reload (multi-table Additions do not auto-compact,
	// so the new tables stay separate)
	if haveCompactRange {
		for pi, pro := range []string{"addmulti3", "addmulti3,add", "addmulti,addmulti"} {
			for ai, a := range []string{"add,read", "addempty,read", "clean,read"} {
				for bi, b := range []string{"cr45", "cr45,add", "cr34", "cr35", "cr46"} {
					if c.Mine(idx) {
						e.sweepStale("behind-by-several-tables-sweep", idx, engCfg(pi+ai+bi), eng.Recipe{60, 0, 0}, pro, a, b)
					}
					idx++
				}
			}
		}
	}
	// the list changes WITHOUT any new file appearing: a prefix (or an inner range) of
	// the stack cancels out and is dropped, the tables above it stay. The stale handle
	// then reloads (all names it needs are already open) and reads.
	if haveCompactRange {
		for ri, rec := range []eng.Recipe{{-1, -2, 0}, {-1, -2, 0, 0}, {60, -1, -2, 0}, {-1, -2}} {
			for pi, pro := range []string{"cr01", "cr01,add", "cr12", "cr01,cr01"} {
				for ai, a := range []string{"add,read", "addempty,read", "clean,read", "reopen,read", "autocompact,read", "read,add,read"} {
					for bi, b := range []string{"", "add"} {
						if c.Mine(idx) {
							e.sweepStale("list-shrinks-without-new-table-sweep", idx, engCfg(ri+pi+ai+bi), rec, pro, a, b)
						}
						idx++
					}
				}
			}
		}
	}
	// a slow machine: every reading of the clock by the reloading handle finds a second
	// gone, so the reload's own deadline (2.5 s) expires after its first failed attempt;
	// it must then report failure, not success with a stale or empty stack
	for ai, a := range []string{"reopen,read", "add,read", "addempty,read", "compactall,read", "clean,read"} {
		for bi, b := range []string{"add,compactall", "compactall", "add,add,compactall", "cr01,add"} {
			for ri, rec := range []eng.Recipe{{0, 0}, {60, 0, 0}} {
				for _, pre := range []bool{true, false} {
					if c.Mine(idx) {
						e.sweepSlowClock("slow-clock-reload-sweep", idx, engCfg(ai+bi+ri), rec, a, b, pre)
					}
					idx++
				}
			}
		}
	}
	// the unlink of a dropped table fails (read-only directory, EIO): the handle still
	// ends up on one consistent version and stays readable
	idx = e.removeFaultFamilies(idx)
	// I/O errors inside Add / compaction / reload: the handle keeps a consistent view
	idx = e.faultFamilies(idx, false, ",read,add,read", 3)
	kinds := []string{"add", "add", "read", "read", "read", "compactall", "autocompact", "reopen", "addbig", "compactexpiry", "clean"}
	n := c.N(2500, 120000)
	for i := 0; i < n; i++ {
		if c.Mine(idx) {
			run := func() { e.randomScenarioX("random(readers)", idx, c.Seed, kinds, false, 3) }
			if i%5 == 0 {
				e.onDisk(run)
			} else {
				run()
			}
		}
		idx++
	}
	// long sequential churn next to an idle reader (many list versions between two of
	// its reloads), on the disk-backed file system
	for i := 0; i < c.N(40, 1500); i++ {
		if c.Mine(idx) {
			e.onDisk(func() { e.churnScenario("reader-vs-long-churn", idx) })
		}
		idx++
	}
	sampleEng(c, e)
}

// RunC16: operations leave no residue.
func RunC16(c *Ctx) {
	r := c.Rep
	r.Rule = engRule("Deciding monitor for C16: M-own. Ledger of every file a process created (locks, *.reftmp, tables renamed into place but not yet listed, tables its commit dropped from the list): whenever a process returns from an API call its ledger must be empty, and when all processes are idle the directory must be exactly tables.list plus the tables it names (checked before and after the handles are closed); after crashes of OTHER processes Close and Clean of a live process must not remove a listed table, must not panic and return nil unless a dead process's list lock exists. Sequential histories with failed Adds, rejected transactions and empty stacks are part of the same check.")
	e := newEngRunner(c)
	defer e.cleanup()
	aKinds := []string{"add", "addmulti", "compactall", "autocompact", "clean", "close", "addbad", "compactexpiry", "addempty", "addmultibad", "addmultiabandon", "addmultistale"}
	bSeqs := []string{"add", "compactall", "autocompact", "add,compactall", "clean", "close", "addmulti"}
	recs := []eng.Recipe{{}, {0, 0}, {60, 0, 0}, {200, 40, 0, 0}}
	cases := pairCases(aKinds, bSeqs, recs, true)
	idx := 0
	for i, pc := range cases {
		if !c.Thorough() && i%3 != 0 {
			idx++
			continue
		}
		if c.Mine(idx) {
			e.sweepPair("pair-sweep", idx, engCfg(pc.cfg), pc.rec, pc.a, pc.b, pc.c, pc.preOpen, false)
		}
		idx++
	}
	triples := [][3]string{{"autocompact", "add", "add"}, {"compactall", "compactall", "add"}, {"autocompact", "compactall", "clean"}}
	trecs := []eng.Recipe{{60, 0, 0}, {200, 40, 0, 0}}
	step := 3
	if c.Thorough() {
		step = 1
	}
	for ti, t := range triples {
		for ri, rec := range trecs {
			if c.Mine(idx) {
				e.sweepTriple("triple-sweep", idx, engCfg(ti+ri), rec, t[0], t[1], t[2], step, step)
			}
			idx++
		}
	}
	idx = e.lateClockPairs(idx, cases, c.N(23, 7), false)
	// crash part: another process died; Close and Clean of a live one
	for ci, cr := range [][2]string{{"add", "clean,close"}, {"compactall", "clean,add,close"}, {"autocompact", "close"}, {"addmulti", "clean,clean,close"}, {"compactexpiry", "clean,close"}} {
		for ri, rec := range []eng.Recipe{{}, {0, 0}, {200, 40, 0, 0}} {
			if c.Mine(idx) {
				e.crashSweep("crash-then-clean-close", idx, engCfg(ci+ri), rec, cr[0], cr[1], false)
			}
			idx++
		}
	}
	idx = e.staleCleanupFamilies(idx)
	idx = e.removeFaultFamilies(idx)
	idx = e.faultFamilies(idx, false, ",clean", 2)
	for i := 0; i < c.N(800, 40000); i++ {
		if c.Mine(idx) {
			e.randomFaultScenario("random+io-fault", idx, c.Seed, pctKinds, false)
		}
		idx++
	}
	n := c.N(2000, 100000)
	for i := 0; i < n; i++ {
		if c.Mine(idx) {
			e.randomScenario("random", idx, c.Seed)
		}
		idx++
	}
	// sequential multi-handle histories (failed Adds, stale compactions, empty stacks)
	ns := c.N(300, 10000)
	for i := 0; i < ns; i++ {
		if c.Mine(i) {
			runC09History(c, 1000000+i)
		}
	}
	runEngB(c, c.N(8, 200))
	sampleEng(c, e)
}

var _ = os.Remove
var _ = filepath.Join
var _ = strings.Join

// churnScenario: a reader handle sits idle while a writer performs a long sequence of
// adds and compactions (list versions with equal table counts recur); the reader then
// adds / reads. Sequential phases, scheduled under the engine so that all monitors run.
func (e *engRunner) churnScenario(family string, idx int) {
	rng := gen.NewRng(gen.Mix(e.c.Seed^0xc4, int64(idx)))
	gcfg := engCfg(rng.Intn(4))
	ts := newTxnSource(gen.Mix(e.c.Seed, int64(idx)+9), gcfg.HashSize())
	var w []string
	n := 2 + rng.Intn(10)
	for i := 0; i < n; i++ {
		w = append(w, []string{"add", "add", "compactall", "cr01", "add,compactall", "addbig"}[rng.Intn(6)])
	}
	reader := []string{"add,read", "read,add,read", "addempty,read,add,read", "compactall,read,add,read"}[rng.Intn(4)]
	scripts := [][]eng.Call{ts.mkCalls(reader), nil, ts.mkCalls(strings.Join(w, ","))}
	sc := &eng.Scenario{Name: fmt.Sprintf("writer does [%s] while the reader is idle, then reader=[%s]", strings.Join(w, ","), reader), GCfg: gcfg,
		Init: []eng.Recipe{{0, 0}, {60, 0, 0}, {0, 0, 0}}[rng.Intn(3)], Scripts: scripts, Policy: &eng.Sweep1After{First: 2, A: 0, K: 1 << 30}, SkipTmpWrites: true, PreOpen: true}
	e.run(sc, family, idx)
}
