package props

import (
	"io"
	"bufio"
	"bytes"
	"encoding/hex"
	"fmt"
	"os"
	"os/exec"
	"path/filepath"
	"sort"
	"strconv"
	"strings"
	"time"

	"github.com/google/reftable"
	"verif/harness/dec"
	"verif/harness/gen"
	"verif/harness/rep"
	"verif/harness/rtx"
	"verif/harness/stx"
)

// ---- exchange format ------------------------------------------------------------

func hx(b []byte) string {
	if len(b) == 0 {
		return "-"
	}
	return hex.EncodeToString(b)
}

func xRef(r *gen.Ref) string {
	switch r.Kind {
	case gen.KDel:
		return fmt.Sprintf("r %s %d d", hx([]byte(r.Name)), r.UI)
	case gen.KVal:
		return fmt.Sprintf("r %s %d 1 %s", hx([]byte(r.Name)), r.UI, hx(r.Value))
	case gen.KPeeled:
		return fmt.Sprintf("r %s %d 2 %s %s", hx([]byte(r.Name)), r.UI, hx(r.Value), hx(r.Peeled))
	case gen.KSym:
		return fmt.Sprintf("r %s %d 3 %s", hx([]byte(r.Name)), r.UI, hx([]byte(r.Target)))
	}
	return fmt.Sprintf("r %s %d ?%d", hx([]byte(r.Name)), r.UI, r.Kind)
}

func xLog(l *gen.Log) string {
	if l.Del {
		return fmt.Sprintf("g %s %d d", hx([]byte(l.Name)), l.UI)
	}
	return fmt.Sprintf("g %s %d u %s %s %s %s %d %d %s", hx([]byte(l.Name)), l.UI, hx(l.Old), hx(l.New), hx([]byte(l.User)), hx([]byte(l.Email)), l.Time, l.TZ, hx([]byte(l.Msg)))
}

func xDump(refs []gen.Ref, logs []gen.Log) string {
	var sb strings.Builder
	for i := range refs {
		sb.WriteString(xRef(&refs[i]))
		sb.WriteByte('\n')
	}
	for i := range logs {
		sb.WriteString(xLog(&logs[i]))
		sb.WriteByte('\n')
	}
	return sb.String()
}

// noNUL makes every string of a table representable as a C string.
func noNUL(t *gen.Table) {
	fix := func(s string) string { return strings.ReplaceAll(s, "\x00", "\x01") }
	for i := range t.Refs {
		t.Refs[i].Target = fix(t.Refs[i].Target)
	}
	for i := range t.Logs {
		l := &t.Logs[i]
		l.User, l.Email, l.Msg = fix(l.User), fix(l.Email), fix(l.Msg)
	}
}

type cdriver struct {
	bin string
	c   *Ctx
}

// run executes the driver; sanitizer reports and crashes are returned in san.
func (d *cdriver) run(args ...string) (stdout string, san string, err error) {
	cmd := exec.Command(d.bin, args...)
	cmd.Env = append(os.Environ(), "ASAN_OPTIONS=detect_leaks=0:abort_on_error=0:exitcode=99", "UBSAN_OPTIONS=print_stacktrace=1:halt_on_error=1:exitcode=98")
	var so, se bytes.Buffer
	cmd.Stdout, cmd.Stderr = &so, &se
	done := make(chan error, 1)
	if err := cmd.Start(); err != nil {
		return "", "", err
	}
	go func() { done <- cmd.Wait() }()
	select {
	case err = <-done:
	case <-time.After(120 * time.Second):
		cmd.Process.Kill()
		<-done
		return so.String(), "", fmt.Errorf("driver timed out")
	}
	es := se.String()
	if strings.Contains(es, "AddressSanitizer") || strings.Contains(es, "runtime error:") || strings.Contains(es, "UndefinedBehaviorSanitizer") {
		san = es
		if len(san) > 3000 {
			san = san[:3000]
		}
	} else if err != nil {
		if ee, ok := err.(*exec.ExitError); ok && ee.ExitCode() != 3 && ee.ExitCode() != 0 {
			san = fmt.Sprintf("driver died: %v\n%s", err, trimTo(es, 1500))
		}
	}
	return so.String(), san, err
}

func sanSig(san string) string {
	for _, k := range []string{"heap-buffer-overflow", "stack-buffer-overflow", "heap-use-after-free", "SEGV", "signed integer overflow", "null pointer", "misaligned", "shift", "out of bounds", "double-free", "driver died"} {
		if strings.Contains(san, k) {
			return strings.ReplaceAll(k, " ", "-")
		}
	}
	return "other"
}

func cOpts(c gen.Cfg) []string {
	var o []string
	if c.BlockSize != 0 {
		o = append(o, fmt.Sprintf("bs=%d", c.BlockSize))
	}
	if c.Restart != 0 {
		o = append(o, fmt.Sprintf("ri=%d", c.Restart))
	}
	if c.Unaligned {
		o = append(o, "unpadded")
	}
	if c.SkipIndexObjects {
		o = append(o, "skipobj")
	}
	if c.ExactLog {
		o = append(o, "exact")
	}
	if c.SHA256 {
		o = append(o, "s256")
	}
	return o
}

type c15query struct {
	line string
	kind string
	key  string
	ui   uint64
	oid  []byte
}

// goAnswer renders what the Go implementation returns for a query, in exchange format.
func goAnswer(tab reftable.Table, q *c15query) (string, error) {
	var out string
	err := rtx.Safe(func() error {
		switch q.kind {
		case "scan":
			refs, logs, err := rtx.ScanAll(tab)
			out = xDump(refs, logs)
			return err
		case "seekref":
			it, err := tab.SeekRef(q.key)
			if err != nil {
				return err
			}
			rs, err := rtx.DrainRefs(it, 8)
			out = xDump(rs, nil)
			return err
		case "seeklog":
			it, err := tab.SeekLog(q.key, q.ui)
			if err != nil {
				return err
			}
			ls, err := rtx.DrainLogs(it, 8)
			out = xDump(nil, ls)
			return err
		case "refsfor":
			it, err := tab.RefsFor(q.oid)
			if err != nil {
				return err
			}
			rs, err := rtx.DrainRefs(it, 0)
			out = xDump(rs, nil)
			return err
		case "readref":
			rr, err := reftable.ReadRef(tab, q.key)
			if err != nil {
				return err
			}
			if rr != nil {
				g := rtx.FromRef(rr)
				if g.Kind != gen.KDel {
					out = xRef(&g) + "\n"
				}
			}
			return nil
		case "readlog":
			lr, err := reftable.ReadLogAt(tab, q.key, ^uint64(0))
			if err != nil {
				return err
			}
			if lr != nil {
				g := rtx.FromLog(lr)
				out = xLog(&g) + "\n"
			}
			return nil
		}
		return nil
	})
	return out, err
}

func mkQueries(rng *gen.Rng, refNames, logNames []string, oids [][]byte, withRefsFor bool) []*c15query {
	qs := []*c15query{{line: "scan", kind: "scan"}}
	pick := func(l []string, n int) []string {
		if len(l) <= n {
			return l
		}
		var out []string
		for i := 0; i < n; i++ {
			out = append(out, l[rng.Intn(len(l))])
		}
		return out
	}
	for _, n := range pick(refNames, 6) {
		for _, k := range []string{n, n + "\x01", n[:len(n)-1]} {
			if k == "" || strings.IndexByte(k, 0) >= 0 {
				continue
			}
			qs = append(qs, &c15query{line: "seekref " + hx([]byte(k)), kind: "seekref", key: k})
		}
	}
	for _, n := range pick(logNames, 5) {
		for _, u := range []uint64{^uint64(0), 3, uint64(rng.Intn(200))} {
			qs = append(qs, &c15query{line: fmt.Sprintf("seeklog %s %d", hx([]byte(n)), u), kind: "seeklog", key: n, ui: u})
		}
	}
	if withRefsFor {
		for _, o := range oids {
			qs = append(qs, &c15query{line: "refsfor " + hx(o), kind: "refsfor", oid: o})
		}
	}
	return qs
}

// parseAnswers splits driver output into per-query answers.
func parseAnswers(out string) (answers []string, limits string, ok bool) {
	var cur []string
	in := false
	for _, line := range strings.Split(out, "\n") {
		switch {
		case strings.HasPrefix(line, "LIMITS "):
			limits = line
		case strings.HasPrefix(line, "Q "):
			in = true
			cur = nil
		case line == "END":
			answers = append(answers, strings.Join(cur, "\n"))
			in = false
		case line == "OK":
			ok = true
		default:
			if in && line != "" {
				cur = append(cur, line)
			}
		}
	}
	return
}

func namesOf(t *gen.Table) (refNames, logNames []string) {
	for _, r := range t.Refs {
		refNames = append(refNames, r.Name)
	}
	seen := map[string]bool{}
	for _, l := range t.Logs {
		if !seen[l.Name] {
			seen[l.Name] = true
			logNames = append(logNames, l.Name)
		}
	}
	return
}

// compareQueries runs the queries through both implementations and compares.
func (d *cdriver) compareQueries(what string, mode string, target string, extra []string, tab reftable.Table, qs []*c15query, caseInfo map[string]interface{}, idHash string) bool {
	c := d.c
	qf := filepath.Join(c.Work, fmt.Sprintf("c15-%d.q", c.Shard))
	var sb strings.Builder
	for _, q := range qs {
		sb.WriteString(q.line + "\n")
	}
	os.WriteFile(qf, []byte(sb.String()), 0644)
	defer os.Remove(qf)
	args := append([]string{mode, target, qf}, extra...)
	out, san, err := d.run(args...)
	return d.judgeAnswers(what, out, san, err, tab, qs, caseInfo, idHash)
}

// judgeAnswers compares the C side's answers (driver output) with Go's.
func (d *cdriver) judgeAnswers(what string, out, san string, err error, tab reftable.Table, qs []*c15query, caseInfo map[string]interface{}, idHash string) bool {
	r := d.c.Rep
	if san != "" {
		r.Violate([]string{"C15"}, what+"|c-sanitizer|"+sanSig(san), "the C implementation has a sanitizer report / crashed on input produced by the other implementation:\n"+san, caseInfo)
		return false
	}
	answers, _, ok := parseAnswers(out)
	if !ok || len(answers) != len(qs) {
		msg := trimTo(out, 600)
		if err != nil {
			msg += " / " + err.Error()
		}
		sig := what + "|c-cannot-read"
		if strings.Contains(out, "ERROR new_reader") {
			sig += "|new_reader"
		} else if strings.Contains(out, "ERROR new_stack") {
			sig += "|new_stack"
		}
		r.Violate([]string{"C15"}, sig, "the C implementation fails on a file/directory written by the Go implementation: "+msg, caseInfo)
		return false
	}
	for i, q := range qs {
		r.Evaluations++
		want, gerr := goAnswer(tab, q)
		got := answers[i]
		if got != "" {
			got += "\n"
		}
		if gerr != nil {
			r.Violate([]string{"C15", "C02"}, what+"|go-query-failed", fmt.Sprintf("%s: Go: %v", q.line, gerr), caseInfo)
			return false
		}
		if strings.Contains(got, "ERROR ") {
			r.Violate([]string{"C15"}, what+"|c-query-error|"+q.kind, fmt.Sprintf("%s: the C implementation returns an error where Go returns records: %s", q.line, trimTo(got, 300)), caseInfo)
			return false
		}
		if want != got {
			r.Violate([]string{"C15"}, what+"|answers-differ|"+q.kind, fmt.Sprintf("%s: Go and C disagree: %s", q.line, gen.DiffLines(want, got)), caseInfo)
			return false
		}
		r.Nontrivial(rep.Hash("c15", what, idHash, q.line))
	}
	return true
}

// RunC15: the Go and C implementations agree on tables and stacks.
func RunC15(c *Ctx) {
	r := c.Rep
	r.Rule = "case = one query (full scan, SeekRef, SeekLog, RefsFor) answered by BOTH implementations on the same file or directory: (a) table written by Go, read by the C library built from /repo/c with ASan+UBSan; (b) table written by C from generated records, read by Go (and judged by the independent decoder and the source records); (c) stack directory written by Go (Adds + compactions) read by C; (d) stack written by C (stack_add with its auto-compaction, compact_all), read and extended by Go, read again by C. (e) a Go-written stack extended by C (multi-table additions, compact_all, compact_all with expiry, clean), read by Go and again by C. (f) a long-lived C handle reloads after Go rewrote the stack, answers queries, adds a transaction. Any sanitizer report of the C side on such input is a violation. distinct = (direction, file/stack, query); non-trivial = every compared query"
	r.Assumptions = []string{"NUL-free names and strings (C strings)", "ASAN detect_leaks=0: leaks are not part of the property"}
	bin := os.Getenv("VERIF_CDRIVER")
	if bin == "" {
		r.Note("VERIF_CDRIVER not set: C driver unavailable")
		r.Inconclusive++
		return
	}
	d := &cdriver{bin: bin, c: c}
	n := c.N(300, 8000)
	for idx := 0; idx < n; idx++ {
		if !c.Mine(idx) {
			continue
		}
		d.tableCase(idx)
	}
	ns := c.N(60, 1500)
	for idx := 0; idx < ns; idx++ {
		if !c.Mine(idx) {
			continue
		}
		d.stackCase(idx)
	}
}

func (d *cdriver) tableCase(idx int) {
	c := d.c
	r := c.Rep
	var t *gen.Table
	genName := "GenTable"
	if idx%3 == 2 {
		t = GenOidTable(c.Seed^0xc15, idx)
		genName = "GenOidTable"
	} else {
		t = gen.GenTable(c.Seed^0xc15, idx)
	}
	noNUL(t)
	if len(t.Refs)+len(t.Logs) > 3000 {
		t.Refs = t.Refs[:mini(len(t.Refs), 1500)]
		t.Logs = t.Logs[:mini(len(t.Logs), 1000)]
	}
	rng := gen.NewRng(gen.Mix(c.Seed, int64(idx)+15))
	info := map[string]interface{}{"prop": "C15", "seed": c.Seed, "index": idx, "generator": genName, "cfg": t.Cfg.String(), "note": t.Note}
	wantRefs, wantLogs := t.Expected()
	refNames, logNames := namesOf(t)
	oids := oidsOf(wantRefs, t.Cfg.HashSize(), rng)
	if len(oids) > 10 {
		oids = oids[:10]
	}
	qs := mkQueries(rng, refNames, logNames, oids, true)
	idh := fmt.Sprint(c.Seed, "/", idx)

	// (a) Go writes, C reads
	data, err := rtx.WriteTable(t)
	if err == nil && len(t.Refs)+len(t.Logs) > 0 {
		fn := filepath.Join(c.Work, fmt.Sprintf("c15-go-%d-%d.ref", c.Shard, idx))
		os.WriteFile(fn, data, 0644)
		rd, rerr := rtx.OpenBytes(data, "go")
		if rerr == nil {
			if d.compareQueries("go-writes-c-reads", "query-table", fn, nil, rd, qs, info, idh) {
				r.Count("tables_go_to_c", 1)
			}
		}
		os.Remove(fn)
	} else if err != nil && err != reftable.ErrEmptyTable {
		r.OutOfDomain++
	}

	// (b) C writes, Go reads
	recf := filepath.Join(c.Work, fmt.Sprintf("c15-rec-%d.txt", c.Shard))
	outf := filepath.Join(c.Work, fmt.Sprintf("c15-c-%d-%d.ref", c.Shard, idx))
	defer os.Remove(recf)
	defer os.Remove(outf)
	os.WriteFile(recf, []byte(xDump(t.Refs, t.Logs)), 0644)
	args := append([]string{"write-table", recf, outf}, cOpts(t.Cfg)...)
	if t.Cfg.SetLimits {
		args = append(args, fmt.Sprintf("min=%d", t.Cfg.Min), fmt.Sprintf("max=%d", t.Cfg.Max))
	}
	out, san, _ := d.run(args...)
	if san != "" {
		r.Violate([]string{"C15"}, "c-writer|c-sanitizer|"+sanSig(san), "the C writer has a sanitizer report on generated records:\n"+san, info)
		return
	}
	switch {
	case strings.HasPrefix(out, "OK"):
	case strings.HasPrefix(out, "EMPTY"), strings.HasPrefix(out, "REJECTED"):
		r.Count("c_writer_rejected_or_empty", 1)
		if strings.HasPrefix(out, "REJECTED") && err == nil {
			r.SetAdd("writer_domain_differences", "C rejects what Go accepts: "+strings.TrimSpace(trimTo(out, 60)))
		}
		return
	default:
		r.Violate([]string{"C15"}, "c-writer|failed", "C write-table failed: "+trimTo(out, 400), info)
		return
	}
	cdata, rerr := os.ReadFile(outf)
	if rerr != nil {
		return
	}
	r.Evaluations++
	rd, rerr := rtx.OpenBytes(cdata, "c")
	if rerr != nil {
		r.Violate([]string{"C15"}, "c-writes-go-reads|go-cannot-read", "Go NewReader fails on a table written by C: "+rerr.Error(), info)
		return
	}
	refs, logs, serr := rtx.ScanAll(rd)
	if serr != nil {
		r.Violate([]string{"C15"}, "c-writes-go-reads|go-scan-error|"+errClass(serr), "Go fails to scan a table written by C: "+serr.Error()+PanicDetail(serr), info)
		return
	}
	// both writers apply the same documented normalisation
	if want, got := gen.Dump(wantRefs, wantLogs), gen.Dump(refs, logs); want != got {
		r.Violate([]string{"C15"}, "c-writes-go-reads|records-differ|"+mismatchClass(wantRefs, wantLogs, refs, logs), "a table written by C from the source records reads back differently in Go: "+gen.DiffLines(want, got), info)
		return
	}
	// the independent decoder judges the C writer's file as well
	cfgc := t.Cfg
	if _, findings := dec.Decode(cdata, dec.Options{KnownCfg: &cfgc}); len(findings) > 0 {
		r.Violate([]string{"C15", "C14"}, "c-writer|malformed|"+findings[0].Rule, fmt.Sprintf("the independent decoder rejects a table written by C: %v", findings), info)
		return
	}
	// seeks and RefsFor by Go on the C-written file vs. the generator's lists
	for _, q := range qs[1:] {
		r.Evaluations++
		got, gerr := goAnswer(rd, q)
		if gerr != nil {
			r.Violate([]string{"C15"}, "c-writes-go-reads|go-query-error|"+q.kind, fmt.Sprintf("%s on a C-written table: %v %s", q.line, gerr, PanicDetail(gerr)), info)
			return
		}
		var want string
		switch q.kind {
		case "seekref":
			pos := sort.Search(len(wantRefs), func(i int) bool { return wantRefs[i].Name >= q.key })
			w := wantRefs[pos:]
			if len(w) > 8 {
				w = w[:8]
			}
			want = xDump(w, nil)
		case "seeklog":
			probe := gen.Log{Name: q.key, UI: q.ui}
			pos := sort.Search(len(wantLogs), func(i int) bool { return !gen.LogLess(&wantLogs[i], &probe) })
			w := wantLogs[pos:]
			if len(w) > 8 {
				w = w[:8]
			}
			want = xDump(nil, w)
		case "refsfor":
			want = xDump(gen.RefsFor(wantRefs, q.oid), nil)
		}
		if want != got {
			r.Violate([]string{"C15"}, "c-writes-go-reads|query-differs|"+q.kind, fmt.Sprintf("%s on a C-written table: %s", q.line, gen.DiffLines(want, got)), info)
			return
		}
		r.Nontrivial(rep.Hash("c15", "c2go", idh, q.line))
	}
	r.Count("tables_c_to_go", 1)
	if idx%41 == 0 {
		r.Sample(map[string]interface{}{"index": idx, "cfg": t.Cfg.String(), "refs": len(t.Refs), "logs": len(t.Logs), "queries": len(qs), "go_bytes": len(data), "c_bytes": len(cdata)})
	}
}

func (d *cdriver) stackCase(idx int) {
	c := d.c
	r := c.Rep
	rng := gen.NewRng(gen.Mix(c.Seed^0x15c, int64(idx)))
	gcfg := cfgForHistory(rng, idx)
	cfg := rtx.Config(gcfg)
	hs := gcfg.HashSize()
	info := map[string]interface{}{"prop": "C15", "seed": c.Seed, "index": idx, "generator": "stackCase", "cfg": gcfg.String()}
	keys := gen.FlatKeys(6)
	opts := gen.TxnOpts{Keys: keys, MaxRefs: 3, Journal: true, DelP: 0.25, LogTombP: 0.2, SymP: 0.1, PeeledP: 0.15}
	qs := mkQueries(rng, append(keys, gen.JournalRef), append(keys, gen.JournalRef), nil, false)
	for _, k := range append(append([]string{}, keys...), gen.JournalRef, "refs/heads/absent") {
		qs = append(qs, &c15query{line: "readref " + hx([]byte(k)), kind: "readref", key: k}, &c15query{line: "readlog " + hx([]byte(k)), kind: "readlog", key: k})
	}
	idh := fmt.Sprint("stack/", c.Seed, "/", idx)

	// (c) Go writes a stack, C reads it
	dir := c.TempDir(fmt.Sprintf("c15s-%d", idx))
	defer os.RemoveAll(dir)
	st, err := stx.Open(dir, cfg)
	if err != nil {
		return
	}
	model := gen.NewModel(hs, gcfg.ExactLog)
	nt := 3 + rng.Intn(12)
	for i := 0; i < nt; i++ {
		o := opts
		if i == 0 {
			o.Filler = rng.Intn(80)
		}
		t := gen.GenTxn(rng, i+1, model, o)
		ui, err := stx.Apply(st, t)
		if err != nil {
			stx.SafeClose(st)
			r.Note("stack setup failed: %v", err)
			return
		}
		model.Apply(t, ui)
		if rng.Chance(0.1) {
			st.CompactAll(nil)
		}
	}
	m := st.Merged()
	okc := d.compareQueries("go-stack-c-reads", "query-stack", dir, cOpts(gcfg), m, qs, info, idh)
	nextUI := st.NextUpdateIndex()
	stx.SafeClose(st)
	if okc {
		r.Count("stacks_go_to_c", 1)
		d.cExtends(rng, dir, gcfg, cfg, model, nextUI, opts, qs, info, idh)
		d.longLivedCHandle(rng, idx, gcfg, cfg, opts, qs, info, idh)
	}

	// (d) C writes a stack (stack_add + its auto-compaction), Go reads and extends it
	dir2 := c.TempDir(fmt.Sprintf("c15t-%d", idx))
	defer os.RemoveAll(dir2)
	model2 := gen.NewModel(hs, gcfg.ExactLog)
	var sb strings.Builder
	nt2 := 3 + rng.Intn(12)
	ui := uint64(1)
	for i := 0; i < nt2; i++ {
		t := gen.GenTxn(rng, 100+i, model2, opts)
		refs, logs := t.Materialize(ui)
		fmt.Fprintf(&sb, "T %d\n%s---\n", ui, xDump(refs, logs))
		model2.Apply(t, ui)
		ui++
	}
	tf := filepath.Join(c.Work, fmt.Sprintf("c15-txn-%d.txt", c.Shard))
	os.WriteFile(tf, []byte(sb.String()), 0644)
	defer os.Remove(tf)
	args := append([]string{"stack-apply", dir2, tf}, cOpts(gcfg)...)
	if rng.Chance(0.3) {
		args = append(args, "compactall")
	}
	out, san, _ := d.run(args...)
	if san != "" {
		r.Violate([]string{"C15"}, "c-stack|c-sanitizer|"+sanSig(san), "the C stack has a sanitizer report:\n"+san, info)
		return
	}
	if !strings.Contains(out, "\nOK") && !strings.HasPrefix(out, "OK") {
		r.Violate([]string{"C15"}, "c-stack|apply-failed", "C stack-apply failed on legal transactions: "+trimTo(out, 500), info)
		return
	}
	r.Evaluations++
	fd, _, err := stx.FreshView(dir2, cfg)
	if err != nil {
		r.Violate([]string{"C15"}, "c-stack-go-reads|go-cannot-open|"+errClass(err), "Go cannot open a stack written by C: "+err.Error(), info)
		return
	}
	if want := model2.Dump(); fd != want {
		r.Violate([]string{"C15"}, "c-stack-go-reads|view-differs", "a stack written by C (with its compactions) reads differently in Go: "+gen.DiffLines(want, fd), info)
		return
	}
	// Go extends the C-written stack, C reads the result
	st2, err := stx.Open(dir2, cfg)
	if err != nil {
		return
	}
	for i := 0; i < 3; i++ {
		t := gen.GenTxn(rng, 200+i, model2, opts)
		u, err := stx.Apply(st2, t)
		if err != nil {
			r.Violate([]string{"C15"}, "c-stack-go-extends|add-failed", "Go Add on a stack written by C failed: "+err.Error(), info)
			stx.SafeClose(st2)
			return
		}
		model2.Apply(t, u)
	}
	refs, logs, _ := stx.View(st2)
	if gen.Dump(refs, logs) != model2.Dump() {
		r.Violate([]string{"C15"}, "c-stack-go-extends|view-differs", "after Go extended a C-written stack its view differs from the model", info)
	}
	if d.compareQueries("mixed-stack-c-reads", "query-stack", dir2, cOpts(gcfg), st2.Merged(), qs, info, idh+"/mixed") {
		r.Count("stacks_c_to_go_to_c", 1)
	}
	stx.SafeClose(st2)
}

// cExtends: (e) the C stack extends a stack written by Go - single transactions and
// multi-table additions (C's auto-compaction then merges tables Go wrote), optionally a full
// compaction, a full compaction with reflog expiry (time / minimum update index, the two
// limits both implementations have), and Clean - and Go reads the result: fresh view ==
// reference model (expiry applied by the reference filter), and C's answers on the result
// == Go's.
func (d *cdriver) cExtends(rng *gen.Rng, dir string, gcfg gen.Cfg, cfg reftable.Config, model *gen.Model, ui uint64, opts gen.TxnOpts, qs []*c15query, info map[string]interface{}, idh string) {
	c := d.c
	r := c.Rep
	var sb strings.Builder
	n := 2 + rng.Intn(5)
	multi := 0
	for i := 0; i < n; {
		k := 1
		if rng.Chance(0.35) {
			k = 2 + rng.Intn(2)
			fmt.Fprintf(&sb, "M %d\n", k)
			multi++
		}
		for j := 0; j < k; j++ {
			t := gen.GenTxn(rng, 300+i, model, opts)
			refs, logs := t.Materialize(ui)
			fmt.Fprintf(&sb, "T %d\n%s---\n", ui, xDump(refs, logs))
			model.Apply(t, ui)
			ui++
			i++
		}
	}
	tf := filepath.Join(c.Work, fmt.Sprintf("c15-ext-%d.txt", c.Shard))
	os.WriteFile(tf, []byte(sb.String()), 0644)
	defer os.Remove(tf)
	args := append([]string{"stack-apply", dir, tf}, cOpts(gcfg)...)
	what := "extend"
	switch rng.Intn(5) {
	case 0:
		args = append(args, "compactall")
		what += "+compactall"
	case 1, 2:
		// expiry limits around the data: times are 1000+txn id, update indices 1..ui
		var et, emin uint64
		_, logs := model.View()
		if len(logs) > 0 {
			l := logs[rng.Intn(len(logs))]
			switch rng.Intn(3) {
			case 0:
				et = l.Time + uint64(rng.Intn(2))
			case 1:
				emin = l.UI + uint64(rng.Intn(2))
			default:
				et = l.Time
				emin = logs[rng.Intn(len(logs))].UI
			}
		}
		args = append(args, fmt.Sprintf("expire=%d,%d", et, emin))
		what += "+expiry"
		e := &reftable.LogExpirationConfig{Time: et, MinUpdateIndex: emin}
		expired := 0
		for k, l := range model.Logs {
			if !l.Del && !keepLog(&l, e) {
				delete(model.Logs, k)
				expired++
			}
		}
		r.Count("c_expiry_entries_expired", expired)
	}
	if rng.Chance(0.3) {
		args = append(args, "clean")
		what += "+clean"
	}
	info2 := map[string]interface{}{}
	for k, v := range info {
		info2[k] = v
	}
	info2["c_extension"] = strings.Join(args[3:], " ")
	out, san, _ := d.run(args...)
	if san != "" {
		r.Violate([]string{"C15"}, "c-extends-go-stack|c-sanitizer|"+sanSig(san), "the C stack has a sanitizer report while extending a stack written by Go:\n"+san, info2)
		return
	}
	if !strings.Contains(out, "\nOK") && !strings.HasPrefix(out, "OK") {
		r.Violate([]string{"C15"}, "c-extends-go-stack|apply-failed", "C "+what+" on a stack written by Go failed on legal transactions: "+trimTo(out, 500), info2)
		return
	}
	r.Evaluations++
	fd, _, err := stx.FreshView(dir, cfg)
	if err != nil {
		r.Violate([]string{"C15"}, "c-extends-go-stack|go-cannot-open|"+errClass(err), "Go cannot open a Go-written stack after C extended it ("+what+"): "+err.Error(), info2)
		return
	}
	if want := model.Dump(); fd != want {
		r.Violate([]string{"C15"}, "c-extends-go-stack|view-differs", "a Go-written stack extended by C ("+what+") reads differently in Go: "+gen.DiffLines(want, fd), info2)
		return
	}
	st, err := stx.Open(dir, cfg)
	if err != nil {
		return
	}
	if d.compareQueries("go-stack-c-extended-c-reads", "query-stack", dir, cOpts(gcfg), st.Merged(), qs, info2, idh+"/cext") {
		r.Count("stacks_go_to_c_extended", 1)
		r.Count("c_multi_table_additions", multi)
		r.Nontrivial(rep.Hash("c15", "cext", idh, what))
	}
	stx.SafeClose(st)
}

// cSession is a long-lived C process holding ONE reftable_stack handle (driver command
// stack-session): commands go in on stdin, every answer ends with a line ".".
type cSession struct {
	cmd  *exec.Cmd
	in   io.WriteCloser
	out  *bufio.Reader
	errb bytes.Buffer
	kill *time.Timer
}

func (d *cdriver) openSession(dir string, opts []string) (*cSession, error) {
	s := &cSession{}
	s.cmd = exec.Command(d.bin, append([]string{"stack-session", dir}, opts...)...)
	s.cmd.Env = append(os.Environ(), "ASAN_OPTIONS=detect_leaks=0:abort_on_error=0:exitcode=99", "UBSAN_OPTIONS=print_stacktrace=1:halt_on_error=1:exitcode=98")
	var err error
	if s.in, err = s.cmd.StdinPipe(); err != nil {
		return nil, err
	}
	op, err := s.cmd.StdoutPipe()
	if err != nil {
		return nil, err
	}
	s.out = bufio.NewReaderSize(op, 1<<20)
	s.cmd.Stderr = &s.errb
	if err := s.cmd.Start(); err != nil {
		return nil, err
	}
	s.kill = time.AfterFunc(120*time.Second, func() { s.cmd.Process.Kill() })
	if _, err := s.read(); err != nil {
		s.close()
		return nil, err
	}
	return s, nil
}

func (s *cSession) read() (string, error) {
	var sb strings.Builder
	for {
		line, err := s.out.ReadString('\n')
		if err != nil {
			return sb.String(), fmt.Errorf("C session ended: %v", err)
		}
		if line == ".\n" {
			return sb.String(), nil
		}
		sb.WriteString(line)
	}
}

func (s *cSession) do(cmd string) (string, error) {
	if _, err := io.WriteString(s.in, cmd+"\n"); err != nil {
		return "", err
	}
	return s.read()
}

// close ends the session and returns a sanitizer report / crash description, if any.
func (s *cSession) close() string {
	io.WriteString(s.in, "quit\n")
	s.in.Close()
	err := s.cmd.Wait()
	s.kill.Stop()
	es := s.errb.String()
	if strings.Contains(es, "AddressSanitizer") || strings.Contains(es, "runtime error:") || strings.Contains(es, "UndefinedBehaviorSanitizer") {
		return trimTo(es, 3000)
	}
	if err != nil {
		return fmt.Sprintf("driver died: %v\n%s", err, trimTo(es, 1500))
	}
	return ""
}

// longLivedCHandle: (f) a C process keeps one stack handle open while Go rewrites the
// stack (adds with auto-compaction, full compactions - often leaving the NUMBER of tables
// unchanged, within the same second); the C handle then reloads and must answer every
// query like Go does on the new state, and a transaction added through it must land on
// top of the current state, not of the one it opened.
func (d *cdriver) longLivedCHandle(rng *gen.Rng, idx int, gcfg gen.Cfg, cfg reftable.Config, opts gen.TxnOpts, qs []*c15query, info map[string]interface{}, idh string) {
	c := d.c
	r := c.Rep
	dir := c.TempDir(fmt.Sprintf("c15l-%d", idx))
	defer os.RemoveAll(dir)
	model := gen.NewModel(gcfg.HashSize(), gcfg.ExactLog)
	st, err := stx.Open(dir, cfg)
	if err != nil {
		return
	}
	id := 400
	goAdd := func(n int) bool {
		for i := 0; i < n; i++ {
			id++
			t := gen.GenTxn(rng, id, model, opts)
			ui, err := stx.Apply(st, t)
			if err != nil {
				r.Note("long-lived C handle case: Go Add failed: %v", err)
				return false
			}
			model.Apply(t, ui)
		}
		return true
	}
	if !goAdd(2 + rng.Intn(3)) {
		stx.SafeClose(st)
		return
	}
	before := stx.Names(st)
	sess, err := d.openSession(dir, cOpts(gcfg))
	if err != nil {
		stx.SafeClose(st)
		r.Violate([]string{"C15"}, "c-session|cannot-open", "the C stack cannot open a stack written by Go: "+err.Error(), info)
		return
	}
	finish := func() bool {
		if san := sess.close(); san != "" {
			r.Violate([]string{"C15"}, "c-session|c-sanitizer|"+sanSig(san), "the long-lived C handle has a sanitizer report / crashed:\n"+san, info)
			return false
		}
		return true
	}
	// Go rewrites the stack under the C handle
	var what []string
	for k, n := 0, 1+rng.Intn(3); k < n; k++ {
		switch rng.Intn(3) {
		case 0:
			st.CompactAll(nil)
			what = append(what, "compactall")
		default:
			if !goAdd(1) {
				stx.SafeClose(st)
				finish()
				return
			}
			what = append(what, "add")
		}
	}
	after := stx.Names(st)
	info2 := map[string]interface{}{}
	for k, v := range info {
		info2[k] = v
	}
	info2["go_rewrite_under_c_handle"] = strings.Join(what, ",")
	info2["tables_before"], info2["tables_after"] = before, after
	if len(before) == len(after) && strings.Join(before, " ") != strings.Join(after, " ") {
		r.Count("c_handle_rewrites_keeping_table_count", 1)
	}
	qf := filepath.Join(c.Work, fmt.Sprintf("c15-sess-%d.q", c.Shard))
	var sb strings.Builder
	for _, q := range qs {
		sb.WriteString(q.line + "\n")
	}
	os.WriteFile(qf, []byte(sb.String()), 0644)
	defer os.Remove(qf)
	out, err := sess.do("reload")
	if err != nil || !strings.HasPrefix(out, "RELOADED 0") {
		stx.SafeClose(st)
		if finish() {
			r.Violate([]string{"C15"}, "c-session|reload-failed", fmt.Sprintf("reload of the long-lived C handle after Go rewrote the stack (%v): %q %v", what, out, err), info2)
		}
		return
	}
	out, err = sess.do("query " + qf)
	okq := d.judgeAnswers("c-long-lived-handle-after-go-rewrite", out, "", err, st.Merged(), qs, info2, idh+"/sess")
	if okq {
		// a transaction through the C handle lands on the current state
		id++
		t := gen.GenTxn(rng, id, model, opts)
		ui := st.NextUpdateIndex()
		refs, logs := t.Materialize(ui)
		tf := filepath.Join(c.Work, fmt.Sprintf("c15-sess-%d.txt", c.Shard))
		os.WriteFile(tf, []byte(fmt.Sprintf("T %d\n%s---\n", ui, xDump(refs, logs))), 0644)
		defer os.Remove(tf)
		out, err = sess.do("apply " + tf)
		if err != nil || !strings.Contains(out, "OK") {
			okq = false
			stx.SafeClose(st)
			if finish() {
				r.Violate([]string{"C15"}, "c-session|apply-failed", fmt.Sprintf("a transaction through the reloaded C handle failed: %s %v", trimTo(out, 400), err), info2)
			}
			return
		}
		model.Apply(t, ui)
	}
	stx.SafeClose(st)
	if !finish() || !okq {
		return
	}
	r.Evaluations++
	fd, _, err := stx.FreshView(dir, cfg)
	if err != nil {
		r.Violate([]string{"C15"}, "c-session|go-cannot-open|"+errClass(err), "Go cannot open the stack after the long-lived C handle added to it: "+err.Error(), info2)
		return
	}
	if want := model.Dump(); fd != want {
		r.Violate([]string{"C15"}, "c-session|view-differs", "after the long-lived C handle added a transaction the stack reads differently in Go: "+gen.DiffLines(want, fd), info2)
		return
	}
	r.Count("c_long_lived_handle_cases", 1)
	r.Nontrivial(rep.Hash("c15", "sess", idh))
}

var _ = strconv.Itoa
