//go:build !have_autocompact

package props

import "github.com/google/reftable"

const haveAutoCompactSwitch = false

func setAutoCompact(st *reftable.Stack, on bool) {}
