package props

import (
	"fmt"
	"os"
	"sort"
	"strings"

	"github.com/google/reftable"
	"verif/harness/gen"
	"verif/harness/rep"
	"verif/harness/rtx"
	"verif/harness/stx"
)

// components: plain ones, one that extends another ("ab"), and ones that extend "a" by a
// byte sorting BEFORE '/' ('-', '.', '+'), so that "a-b/..." sorts between "a" and "a/..."
var c12Comps = []string{"a", "b", "c", "ab", "a-b", "a.b", "a+"}

func c12Names() (good, bad []string) {
	var rec func(prefix string, depth int)
	rec = func(prefix string, depth int) {
		for _, cpt := range c12Comps {
			n := cpt
			if prefix != "" {
				n = prefix + "/" + cpt
			}
			good = append(good, n)
			if depth < 3 {
				rec(n, depth+1)
			}
		}
	}
	rec("", 1)
	bad = []string{"a//b", "a/./b", "a/../b", "/a", "a/", ".", "..", "a/b/", "./a", "a/..", "//"}
	return
}

func validName(n string) bool {
	if n == "" {
		return false
	}
	for _, cpt := range strings.Split(n, "/") {
		if cpt == "" || cpt == "." || cpt == ".." {
			return false
		}
	}
	return true
}

// acceptable implements the reference rule: L' = (L - D) u A must be conflict free and
// every added name must be well formed.
func acceptable(live map[string]bool, adds, dels []string) (bool, string) {
	for _, a := range adds {
		if !validName(a) {
			return false, fmt.Sprintf("added name %q is malformed", a)
		}
	}
	next := map[string]bool{}
	for n := range live {
		next[n] = true
	}
	for _, d := range dels {
		delete(next, d)
	}
	for _, a := range adds {
		next[a] = true
	}
	names := make([]string, 0, len(next))
	for n := range next {
		names = append(names, n)
	}
	sort.Strings(names)
	for _, n := range names {
		// any proper directory prefix of n that is itself a ref?
		for i := 0; i < len(n); i++ {
			if n[i] == '/' && next[n[:i]] {
				return false, fmt.Sprintf("%q and %q conflict", n[:i], n)
			}
		}
	}
	return true, ""
}

type c12Table struct {
	refs []gen.Ref
	adds []string
	dels []string
}

func genC12Table(rng *gen.Rng, id int, live map[string]bool, good, bad []string, hs int) c12Table {
	var t c12Table
	n := 1 + rng.Intn(4)
	seen := map[string]bool{}
	liveList := make([]string, 0, len(live))
	for l := range live {
		liveList = append(liveList, l)
	}
	sort.Strings(liveList)
	for i := 0; i < n; i++ {
		var name string
		switch x := rng.Float64(); {
		case x < 0.04:
			name = bad[rng.Intn(len(bad))]
		case x < 0.35 && len(liveList) > 0:
			// relative of a live name: the name itself, a child, or its parent
			l := liveList[rng.Intn(len(liveList))]
			switch rng.Intn(3) {
			case 0:
				name = l
			case 1:
				name = l + "/" + c12Comps[rng.Intn(len(c12Comps))]
			default:
				if j := strings.LastIndex(l, "/"); j > 0 {
					name = l[:j]
				} else {
					name = l
				}
			}
		default:
			name = good[rng.Intn(len(good))]
		}
		if seen[name] {
			continue
		}
		seen[name] = true
		del := rng.Chance(0.35)
		if live[name] && rng.Chance(0.3) {
			del = true
		}
		ref := gen.Ref{Name: name}
		if del {
			ref.Kind = gen.KDel
			t.dels = append(t.dels, name)
		} else {
			switch rng.Intn(4) {
			case 0:
				ref.Kind = gen.KSym
				ref.Target = "refs/heads/target"
			case 1:
				ref.Kind = gen.KPeeled
				ref.Value = gen.IDHash(id, i, hs)
				ref.Peeled = gen.IDHash(id, 100+i, hs)
			default:
				ref.Kind = gen.KVal
				ref.Value = gen.IDHash(id, i, hs)
			}
			t.adds = append(t.adds, name)
		}
		t.refs = append(t.refs, ref)
	}
	gen.SortRefs(t.refs)
	return t
}

func applyC12(live map[string]bool, t c12Table) {
	for _, d := range t.dels {
		delete(live, d)
	}
	for _, a := range t.adds {
		live[a] = true
	}
}

// RunC12: live ref names never conflict; a transaction is rejected exactly when needed.
func RunC12(c *Ctx) {
	r := c.Rep
	r.Rule = "case = one transaction (1..4 creates/updates/deletes over names built from components {a,b,c,ab} up to depth 3 plus malformed names) submitted through Stack.Add or as one table of a 2..3-table Addition; oracle = reference rule L'=(L-D)uA conflict-free and added names well formed, checked in both directions (accept <=> acceptable), plus a direct scan of the live names after every commit; distinct = (history, step); non-trivial = the transaction touches a name that is a directory-relative (prefix, child or equal) of a live name or of another name in the same Addition"
	n := c.N(1500, 60000)
	good, bad := c12Names()
	for idx := 0; idx < n; idx++ {
		if !c.Mine(idx) {
			continue
		}
		runC12History(c, idx, good, bad)
	}
}

func related(names []string, live map[string]bool) bool {
	for _, n := range names {
		for l := range live {
			if n == l || strings.HasPrefix(n, l+"/") || strings.HasPrefix(l, n+"/") {
				return true
			}
		}
	}
	return false
}

func runC12History(c *Ctx, idx int, good, bad []string) {
	r := c.Rep
	rng := gen.NewRng(gen.Mix(c.Seed^0xc12, int64(idx)))
	gcfg := gen.Cfg{SHA256: idx%2 == 1}
	cfg := rtx.Config(gcfg)
	hs := gcfg.HashSize()
	dir := c.TempDir(fmt.Sprintf("c12-%d", idx))
	defer os.RemoveAll(dir)
	hc := histCase{Prop: c.Prop, Seed: c.Seed, Index: idx, Gen: "runC12History", Cfg: gcfg.String()}
	fail := func(props []string, sig, d string) {
		h := hc
		h.Detail = d
		h.Ops = append([]string(nil), hc.Ops...)
		r.Violate(props, sig, d, h)
	}
	st, err := stx.Open(dir, cfg)
	if err != nil {
		fail([]string{"C05"}, "open-failed", err.Error())
		return
	}
	defer func() { stx.SafeClose(st) }()
	live := map[string]bool{}
	nops := 6 + rng.Intn(30)
	id := 0
	describe := func(t c12Table) string {
		return fmt.Sprintf("+%v -%v", t.adds, t.dels)
	}
	checkLive := func(where string) bool {
		refs, _, err := stx.View(st)
		if err != nil {
			fail([]string{"C10"}, "view-error", err.Error())
			return false
		}
		got := map[string]bool{}
		for _, x := range refs {
			got[x.Name] = true
		}
		// the invariant itself, directly on what the stack shows
		for n := range got {
			if !validName(n) {
				fail([]string{"C12"}, "live-malformed-name", fmt.Sprintf("%s: live ref %q has a malformed name", where, n))
				return false
			}
			for i := 0; i < len(n); i++ {
				if n[i] == '/' && got[n[:i]] {
					fail([]string{"C12"}, "live-conflict|"+where, fmt.Sprintf("%s: live refs %q and %q conflict", where, n[:i], n))
					return false
				}
			}
		}
		// and agreement with the harness's live set
		if len(got) != len(live) {
			fail([]string{"C04"}, "live-set-mismatch", fmt.Sprintf("%s: stack shows %v, model %v", where, sortedKeys(got), sortedKeys(live)))
			return false
		}
		for n := range live {
			if !got[n] {
				fail([]string{"C04"}, "live-set-mismatch", fmt.Sprintf("%s: stack shows %v, model %v", where, sortedKeys(got), sortedKeys(live)))
				return false
			}
		}
		return true
	}
	for op := 0; op < nops; op++ {
		r.Evaluations++
		multi := rng.Chance(0.3)
		if !multi {
			id++
			t := genC12Table(rng, id, live, good, bad, hs)
			okWant, why := acceptable(live, t.adds, t.dels)
			txn := &gen.Txn{ID: id, Refs: t.refs}
			_, err := stx.Apply(st, txn)
			hc.Ops = append(hc.Ops, fmt.Sprintf("add %s -> %v (oracle acceptable=%v)", describe(t), err, okWant))
			if rtx.IsPanic(err) {
				fail([]string{"C12", "C04"}, "add-"+PanicSig(err), PanicDetail(err))
				return
			}
			switch {
			case err == nil && !okWant:
				fail([]string{"C12"}, "accepted-illegal|single-table", fmt.Sprintf("Add accepted %s on live set %v although %s", describe(t), sortedKeys(live), why))
				return
			case err != nil && okWant:
				fail([]string{"C12"}, "rejected-legal|single-table", fmt.Sprintf("Add rejected legal %s on live set %v: %v", describe(t), sortedKeys(live), err))
				return
			}
			if related(append(append([]string{}, t.adds...), t.dels...), live) {
				r.Nontrivial(rep.Hash("c12", fmt.Sprint(c.Seed), fmt.Sprint(idx), fmt.Sprint(op)))
			}
			if err == nil {
				applyC12(live, t)
				r.Count("accepted", 1)
			} else {
				r.Count("rejected", 1)
			}
			if !checkLive("after Add") {
				return
			}
			continue
		}
		// multi-table Addition: each table is judged against the state including the
		// earlier tables of the same Addition
		var add *reftable.Addition
		err := rtx.Safe(func() error {
			var e error
			add, e = st.NewAddition()
			return e
		})
		if err != nil {
			fail([]string{"C04"}, "newaddition-failed", err.Error())
			return
		}
		k := 2 + rng.Intn(2)
		pending := map[string]bool{}
		for n := range live {
			pending[n] = true
		}
		next := st.NextUpdateIndex()
		aborted := false
		nontrivial := false
		var descs []string
		for ti := 0; ti < k; ti++ {
			id++
			t := genC12Table(rng, id, pending, good, bad, hs)
			okWant, why := acceptable(pending, t.adds, t.dels)
			txn := &gen.Txn{ID: id, Refs: t.refs}
			ui := next
			err := rtx.Safe(func() error {
				return add.Add(func(w *reftable.Writer) error { return stx.WriteTxn(w, txn, ui) })
			})
			descs = append(descs, fmt.Sprintf("table%d %s -> %v (oracle acceptable=%v)", ti, describe(t), err, okWant))
			if related(append(append([]string{}, t.adds...), t.dels...), pending) {
				nontrivial = true
			}
			if rtx.IsPanic(err) {
				hc.Ops = append(hc.Ops, descs...)
				fail([]string{"C12", "C04"}, "addition-add-"+PanicSig(err), PanicDetail(err))
				rtx.Safe(func() error { add.Close(); return nil })
				return
			}
			if err == nil && !okWant {
				hc.Ops = append(hc.Ops, descs...)
				where := "vs-committed"
				if okLive, _ := acceptable(live, t.adds, t.dels); okLive {
					where = "conflict-across-sibling-tables"
				}
				fail([]string{"C12"}, "accepted-illegal|multi-table-addition|"+where, fmt.Sprintf("Addition.Add accepted table %d %s on state %v although %s", ti, describe(t), sortedKeys(pending), why))
				rtx.Safe(func() error { add.Close(); return nil })
				return
			}
			if err != nil && okWant {
				hc.Ops = append(hc.Ops, descs...)
				where := "vs-committed"
				if okLive, _ := acceptable(live, t.adds, t.dels); !okLive {
					where = "sibling-deletion-ignored"
				}
				fail([]string{"C12"}, "rejected-legal|multi-table-addition|"+where, fmt.Sprintf("Addition.Add rejected legal table %d %s on state %v: %v", ti, describe(t), sortedKeys(pending), err))
				rtx.Safe(func() error { add.Close(); return nil })
				return
			}
			if err != nil {
				// a rejected table aborts the Addition
				aborted = true
				r.Count("rejected", 1)
				break
			}
			applyC12(pending, t)
			next = ui + 1
		}
		if nontrivial {
			r.Nontrivial(rep.Hash("c12m", fmt.Sprint(c.Seed), fmt.Sprint(idx), fmt.Sprint(op)))
		}
		if aborted || rng.Chance(0.1) {
			rtx.Safe(func() error { add.Close(); return nil })
			hc.Ops = append(hc.Ops, fmt.Sprintf("addition{%s} abandoned", strings.Join(descs, "; ")))
			r.Count("abandoned_additions", 1)
		} else {
			err := rtx.Safe(func() error { return add.Commit() })
			hc.Ops = append(hc.Ops, fmt.Sprintf("addition{%s} commit -> %v", strings.Join(descs, "; "), err))
			if err != nil {
				fail([]string{"C04"}, "commit-failed", fmt.Sprintf("Commit of an accepted Addition failed: %v %s", err, PanicDetail(err)))
				return
			}
			live = pending
			r.Count("accepted", 1)
			r.Count("multi_table_commits", 1)
		}
		if leaks := stx.Residue(dir); len(leaks) > 0 {
			fail([]string{"C16"}, "addition-residue", fmt.Sprintf("after an Addition the directory holds %v", leaks))
			return
		}
		if !checkLive("after multi-table Addition") {
			return
		}
	}
	r.Count("histories", 1)
	if idx%211 == 0 {
		ops := hc.Ops
		if len(ops) > 10 {
			ops = ops[:10]
		}
		r.Sample(map[string]interface{}{"index": idx, "ops": ops})
	}
}
