package props

import (
	"bufio"
	"encoding/json"
	"fmt"
	"math/rand"
	"os"
	"os/exec"
	"path/filepath"
	"sort"
	"strconv"
	"strings"
	"syscall"
	"time"
	"unsafe"

	"github.com/anishathalye/porcupine"
	"github.com/google/reftable"
	"github.com/google/reftable/verifvfs/vos"
	"verif/harness/dec"
	"verif/harness/eng"
	"verif/harness/gen"
	"verif/harness/rep"
	"verif/harness/rtx"
	"verif/harness/stx"
)

// Engine B: real OS processes hammer one directory; PRNG-chosen sleeps are injected at
// the shim's hook points; every worker logs invoke/return records (CLOCK_MONOTONIC, which
// is machine wide) with the invoke record flushed before the call; an observer samples
// the directory with seqlock discipline; optionally one worker is SIGKILLed. The recorded
// history goes through the same offline checks as engine A's. Not deterministic: its role
// is cross-validation under true parallelism on the real kernel.

func monoNanos() int64 {
	var ts syscall.Timespec
	syscall.Syscall(syscall.SYS_CLOCK_GETTIME, 1 /* CLOCK_MONOTONIC */, uintptr(unsafe.Pointer(&ts)), 0)
	return ts.Sec*1e9 + ts.Nsec
}

type bRecord struct {
	W    int    `json:"w"`
	Seq  int    `json:"seq"`
	Ev   string `json:"ev"` // invoke | return
	Kind string `json:"kind"`
	IDs  []int  `json:"ids,omitempty"`
	T    int64  `json:"t"`
	Ok   bool   `json:"ok,omitempty"`
	Err  string `json:"err,omitempty"`
	Out  string `json:"out,omitempty"`
}

// bTxn regenerates the transaction with the given id (same in worker and parent).
func bTxn(id, hs int) *gen.Txn {
	rng := gen.NewRng(int64(id) * 7919)
	m := gen.NewModel(hs, false)
	return gen.GenTxn(rng, id, m, gen.TxnOpts{Keys: gen.FlatKeys(4), MaxRefs: 2, Journal: true, DelP: 0.2})
}

// RunEngBWorker is the worker process.
func RunEngBWorker(c *Ctx) {
	dir := os.Getenv("VERIF_B_DIR")
	wid, _ := strconv.Atoi(os.Getenv("VERIF_B_ID"))
	seed, _ := strconv.ParseInt(os.Getenv("VERIF_B_SEED"), 10, 64)
	ncalls, _ := strconv.Atoi(os.Getenv("VERIF_B_CALLS"))
	sha256 := os.Getenv("VERIF_B_SHA256") == "1"
	logf, err := os.Create(os.Getenv("VERIF_B_LOG"))
	if err != nil {
		os.Exit(3)
	}
	out := bufio.NewWriter(logf)
	rng := rand.New(rand.NewSource(seed))
	drng := rand.New(rand.NewSource(seed ^ 0x5eed))
	vos.DelayHook = func(kind, path string) {
		// bias towards the windows after lock release and before renames
		p := 0.15
		if kind == "rename" || kind == "remove" || kind == "create" {
			p = 0.5
		}
		if drng.Float64() < p {
			time.Sleep(time.Duration(drng.Intn(2000)) * time.Microsecond)
		}
	}
	gcfg := gen.Cfg{SHA256: sha256}
	cfg := rtx.Config(gcfg)
	hs := gcfg.HashSize()
	seq := 0
	emit := func(r bRecord) {
		r.W = wid
		r.T = monoNanos()
		b, _ := json.Marshal(r)
		out.Write(b)
		out.WriteByte('\n')
		out.Flush()
	}
	st, err := stx.Open(dir, cfg)
	if err != nil {
		emit(bRecord{Ev: "return", Kind: "open", Err: err.Error()})
		os.Exit(0)
	}
	next := wid*100000 + 1
	kinds := []string{"add", "add", "add", "addmulti", "compactall", "autocompact", "clean", "reopen", "fresh", "fresh"}
	for i := 0; i < ncalls; i++ {
		kind := kinds[rng.Intn(len(kinds))]
		seq++
		var ids []int
		switch kind {
		case "add":
			ids = []int{next}
			next++
		case "addmulti":
			ids = []int{next, next + 1}
			next += 2
		}
		emit(bRecord{Seq: seq, Ev: "invoke", Kind: kind, IDs: ids})
		var cerr error
		outStr := ""
		switch kind {
		case "add":
			_, cerr = stx.Apply(st, bTxn(ids[0], hs))
		case "addmulti":
			cerr = rtx.Safe(func() error {
				add, err := st.NewAddition()
				if err != nil {
					return err
				}
				defer add.Close()
				ui := st.NextUpdateIndex()
				for _, id := range ids {
					t := bTxn(id, hs)
					u := ui
					if err := add.Add(func(w *reftable.Writer) error { return stx.WriteTxn(w, t, u) }); err != nil {
						return err
					}
					ui++
				}
				return add.Commit()
			})
		case "compactall":
			cerr = rtx.Safe(func() error { return st.CompactAll(nil) })
		case "autocompact":
			cerr = rtx.Safe(func() error { return st.AutoCompact() })
		case "clean":
			cerr = rtx.Safe(func() error { return st.Clean() })
		case "reopen":
			stx.SafeClose(st)
			st, cerr = stx.Open(dir, cfg)
			if cerr != nil {
				emit(bRecord{Seq: seq, Ev: "return", Kind: kind, Err: cerr.Error()})
				os.Exit(0)
			}
		case "fresh":
			var d string
			d, _, cerr = stx.FreshView(dir, cfg)
			if cerr == nil {
				refs, logs, _ := gen.ParseDump(d)
				outStr = eng.JournalOf(refs, logs)
			}
		}
		r := bRecord{Seq: seq, Ev: "return", Kind: kind, IDs: ids, Ok: cerr == nil, Out: outStr}
		if cerr != nil {
			r.Err = cerr.Error()
			if len(r.Err) > 300 {
				r.Err = r.Err[:300]
			}
			if cerr == reftable.ErrLockFailure {
				r.Err = "LOCK"
			}
		}
		emit(r)
	}
	stx.SafeClose(st)
	emit(bRecord{Seq: seq + 1, Ev: "return", Kind: "exit", Ok: true})
	logf.Close()
	os.Exit(0)
}

// runEngB runs `runs` engine-B rounds; violations are charged to props C04/C05/C16.
// engBKillAll makes every round kill one worker (used by C06).
var engBKillAll bool

func runEngB(c *Ctx, runs int) {
	r := c.Rep
	self := os.Getenv("VERIF_HARNESS_BIN")
	if self == "" {
		self, _ = os.Executable()
	}
	for run := 0; run < runs; run++ {
		if !c.Mine(run) {
			continue
		}
		engBRound(c, r, self, run)
	}
}

func engBRound(c *Ctx, r *rep.Report, self string, run int) {
	rng := rand.New(rand.NewSource(gen.Mix(c.Seed^0xb, int64(run))))
	dir := c.TempDir(fmt.Sprintf("engB-%d", run))
	if run%3 == 2 {
		dir = c.DiskDir(fmt.Sprintf("engB-%d", run))
	}
	defer os.RemoveAll(dir)
	logdir := c.TempDir(fmt.Sprintf("engBlog-%d", run))
	defer os.RemoveAll(logdir)
	sha := run%2 == 1
	gcfg := gen.Cfg{SHA256: sha}
	cfg := rtx.Config(gcfg)
	nw := 3 + rng.Intn(4)
	ncalls := 8 + rng.Intn(12)
	kill := run%4 == 3 || engBKillAll
	info := map[string]interface{}{"prop": c.Prop, "seed": c.Seed, "index": run, "engine": "B", "workers": nw, "calls_per_worker": ncalls, "kill": kill, "sha256": sha}
	var cmds []*exec.Cmd
	for w := 0; w < nw; w++ {
		cmd := exec.Command(self, "-prop", "engBworker", "-out", logdir, "-work", logdir)
		cmd.Env = append(os.Environ(), "VERIF_B_DIR="+dir, fmt.Sprintf("VERIF_B_ID=%d", w+1), fmt.Sprintf("VERIF_B_SEED=%d", gen.Mix(c.Seed, int64(run)*100+int64(w))),
			fmt.Sprintf("VERIF_B_CALLS=%d", ncalls), "VERIF_B_LOG="+filepath.Join(logdir, fmt.Sprintf("w%d.log", w+1)), "GOMAXPROCS=2")
		if sha {
			cmd.Env = append(cmd.Env, "VERIF_B_SHA256=1")
		}
		ef, _ := os.Create(filepath.Join(logdir, fmt.Sprintf("w%d.err", w+1)))
		cmd.Stderr = ef
		if err := cmd.Start(); err != nil {
			r.Inconclusive++
			return
		}
		cmds = append(cmds, cmd)
	}
	// observer: seqlock samples of the directory
	stop := make(chan struct{})
	obsDone := make(chan struct{})
	samples, valid := 0, 0
	var obsViol string
	go func() {
		defer close(obsDone)
		okTables := map[string]bool{}
		for {
			select {
			case <-stop:
				return
			default:
			}
			b1, err1 := os.ReadFile(filepath.Join(dir, "tables.list"))
			if err1 != nil {
				time.Sleep(200 * time.Microsecond)
				continue
			}
			samples++
			var bad string
			var lastMax uint64
			for i, n := range strings.Split(string(b1), "\n") {
				if n == "" {
					continue
				}
				if okTables[n] && false {
					continue
				}
				data, err := os.ReadFile(filepath.Join(dir, n))
				if err != nil {
					bad = fmt.Sprintf("listed table %s: %v", n, err)
					break
				}
				if !okTables[n] {
					info, f := dec.Decode(data, dec.Options{StructuralOnly: true})
					if len(f) > 0 || info == nil {
						bad = fmt.Sprintf("listed table %s malformed: %v", n, f)
						break
					}
					okTables[n] = true
				}
				if len(data) >= 24 {
					min, max := be64p(data[8:16]), be64p(data[16:24])
					if i > 0 && min <= lastMax {
						bad = fmt.Sprintf("ranges not increasing at %s", n)
						break
					}
					lastMax = max
				}
			}
			b2, err2 := os.ReadFile(filepath.Join(dir, "tables.list"))
			if err2 == nil && string(b1) == string(b2) {
				// the list did not change while we looked: the sample counts
				valid++
				if bad != "" && obsViol == "" {
					obsViol = bad + " (list " + strings.ReplaceAll(string(b1), "\n", " ") + ")"
				}
			}
			time.Sleep(100 * time.Microsecond)
		}
	}()
	if kill {
		time.Sleep(time.Duration(5+rng.Intn(60)) * time.Millisecond)
		cmds[0].Process.Signal(syscall.SIGKILL)
	}
	deadline := time.Now().Add(120 * time.Second)
	timedOut := false
	for _, cmd := range cmds {
		done := make(chan error, 1)
		go func(cm *exec.Cmd) { done <- cm.Wait() }(cmd)
		select {
		case <-done:
		case <-time.After(time.Until(deadline)):
			cmd.Process.Kill()
			<-done
			timedOut = true
		}
	}
	close(stop)
	<-obsDone
	r.Evaluations++
	r.Count("engineB_rounds", 1)
	r.Count("engineB_observer_samples", samples)
	r.Count("engineB_observer_valid_samples", valid)
	if timedOut {
		r.Inconclusive++
		r.Note("engine B round %d: wall-clock watchdog fired", run)
		return
	}
	if obsViol != "" {
		r.Violate(kp(kill, "C05"), "engineB|observer|"+strings.Fields(obsViol)[0]+"-"+strings.Fields(obsViol)[1], "engine B observer (seqlock sample): "+obsViol, info)
	}
	// ---- merge logs
	var recs []bRecord
	for w := 1; w <= nw; w++ {
		f, err := os.Open(filepath.Join(logdir, fmt.Sprintf("w%d.log", w)))
		if err != nil {
			continue
		}
		sc := bufio.NewScanner(f)
		sc.Buffer(make([]byte, 1<<20), 1<<22)
		for sc.Scan() {
			var br bRecord
			if json.Unmarshal(sc.Bytes(), &br) == nil {
				recs = append(recs, br)
			}
		}
		f.Close()
		if eb, _ := os.ReadFile(filepath.Join(logdir, fmt.Sprintf("w%d.err", w))); len(eb) > 0 && !(kill && w == 1) {
			if strings.Contains(string(eb), "panic") || strings.Contains(string(eb), "fatal error") {
				r.Violate([]string{"C04", "C16"}, "engineB|worker-crashed", "worker crashed:\n"+trimTo(string(eb), 2000), info)
			}
		}
	}
	type key struct{ w, seq int }
	inv := map[key]bRecord{}
	var ops []porcupine.Operation
	acked, failed := map[int]bool{}, map[int]string{}
	var endT int64
	for _, x := range recs {
		if x.T > endT {
			endT = x.T
		}
	}
	for _, x := range recs {
		if x.Ev == "invoke" {
			inv[key{x.W, x.Seq}] = x
		}
	}
	for _, x := range recs {
		if x.Ev != "return" || x.Kind == "exit" || x.Kind == "open" {
			continue
		}
		i, ok := inv[key{x.W, x.Seq}]
		if !ok {
			continue
		}
		delete(inv, key{x.W, x.Seq})
		r.Count("engineB_calls", 1)
		switch x.Kind {
		case "add", "addmulti":
			var ids []string
			for _, id := range x.IDs {
				ids = append(ids, fmt.Sprint(id))
				if x.Ok {
					acked[id] = true
				} else {
					failed[id] = x.Err
				}
			}
			ops = append(ops, porcupine.Operation{ClientId: x.W, Input: bIn{Add: true, IDs: strings.Join(ids, ",")}, Output: bOut{Ok: x.Ok}, Call: i.T, Return: x.T})
			if !x.Ok && x.Err != "LOCK" {
				r.Violate([]string{"C04"}, "engineB|add-failed-with-unexpected-error|"+errClassStr(x.Err), fmt.Sprintf("worker %d %s %v failed with %q", x.W, x.Kind, x.IDs, x.Err), info)
			}
		case "fresh":
			if !x.Ok {
				r.Violate(kp(kill, "C05"), "engineB|fresh-open-failed|"+errClassStr(x.Err), fmt.Sprintf("worker %d: opening the directory failed: %s", x.W, x.Err), info)
			} else {
				ops = append(ops, porcupine.Operation{ClientId: x.W, Input: bIn{}, Output: bOut{Ok: true, Journal: x.Out}, Call: i.T, Return: x.T})
			}
		case "reopen":
			if !x.Ok {
				r.Violate([]string{"C05", "C10"}, "engineB|reopen-failed|"+errClassStr(x.Err), fmt.Sprintf("worker %d: NewStack failed: %s", x.W, x.Err), info)
			}
		case "compactall", "autocompact":
			if !x.Ok && x.Err != "LOCK" {
				r.Violate([]string{"C04"}, "engineB|"+x.Kind+"-failed|"+errClassStr(x.Err), fmt.Sprintf("worker %d %s failed with %q", x.W, x.Kind, x.Err), info)
			}
		}
	}
	// open invocations (killed worker): effect unknown
	for _, i := range inv {
		if i.Kind == "add" || i.Kind == "addmulti" {
			var ids []string
			for _, id := range i.IDs {
				ids = append(ids, fmt.Sprint(id))
			}
			ops = append(ops, porcupine.Operation{ClientId: i.W, Input: bIn{Add: true, IDs: strings.Join(ids, ","), Open: true}, Output: bOut{}, Call: i.T, Return: endT + 1000})
		}
	}
	// ---- final state
	fd, names, err := stx.FreshView(dir, cfg)
	if err != nil {
		r.Violate(kp(kill, "C05", "C04"), "engineB|final-open-failed|"+errClass(err), "a fresh handle cannot open the directory at the end: "+err.Error(), info)
		return
	}
	refs, logs, _ := gen.ParseDump(fd)
	journal := eng.JournalOf(refs, logs)
	inJ := map[int]bool{}
	model := gen.NewModel(gcfg.HashSize(), false)
	// fold the transactions in journal order at the update indices seen in the journal ref's log
	type je struct {
		ui uint64
		id int
	}
	var jes []je
	for _, l := range logs {
		if l.Name == gen.JournalRef && !l.Del {
			if id, ok := gen.TxnIDOfMsg(l.Msg); ok {
				jes = append(jes, je{l.UI, id})
			}
		}
	}
	sort.Slice(jes, func(i, j int) bool { return jes[i].ui < jes[j].ui })
	for _, e := range jes {
		inJ[e.id] = true
		model.Apply(bTxn(e.id, gcfg.HashSize()), e.ui)
	}
	if want := model.Dump(); want != fd {
		r.Violate(kp(kill, "C04"), "engineB|final-state-is-not-the-fold-of-its-journal", "the final state is not the fold of the committed transactions in journal order: "+gen.DiffLines(want, fd), info)
	}
	for id := range acked {
		if !inJ[id] {
			r.Violate(kp(kill, "C04"), "engineB|acked-transaction-lost", fmt.Sprintf("Add of t%d returned nil but it is not in the final state (journal %s)", id, journal), info)
		}
	}
	for id, e := range failed {
		if inJ[id] {
			r.Violate(kp(kill, "C04"), "engineB|failed-transaction-visible", fmt.Sprintf("Add of t%d failed (%s) but it is in the final state", id, e), info)
		}
	}
	ops = append(ops, porcupine.Operation{ClientId: 99, Input: bIn{}, Output: bOut{Ok: true, Journal: journal}, Call: endT + 2000, Return: endT + 3000})
	bm := bModel()
	res := porcupine.CheckOperationsTimeout(bm.ToModel(), ops, 60*time.Second)
	switch res {
	case porcupine.Illegal:
		var sb strings.Builder
		for _, o := range ops {
			fmt.Fprintf(&sb, "c%d %+v -> %+v [%d,%d]\n", o.ClientId, o.Input, o.Output, o.Call, o.Return)
		}
		r.Violate(kp(kill, "C04"), "engineB|history-not-linearizable", "no sequential order explains the recorded history:\n"+trimTo(sb.String(), 3000), info)
	case porcupine.Unknown:
		r.Inconclusive++
		r.Note("engine B: linearizability checker timed out on %d operations", len(ops))
	}
	r.Count("engineB_history_ops", len(ops))
	// ---- residue (only when nobody was killed)
	if !kill {
		if res := stx.Residue(dir); len(res) > 0 {
			cls := map[string]bool{}
			for _, n := range res {
				cls[stx.ClassOf(n)] = true
			}
			r.Violate([]string{"C16"}, "engineB|residue|"+joinKeys(cls), fmt.Sprintf("all workers exited normally, the directory holds %v besides tables.list and the %d listed tables", res, len(names)), info)
		}
	}
	if valid > 0 {
		r.Nontrivial(rep.Hash("engB", fmt.Sprint(c.Seed), fmt.Sprint(run)))
	}
	if run%10 == 0 {
		r.Sample(map[string]interface{}{"engine": "B", "round": run, "workers": nw, "calls": len(ops), "observer_samples_valid": valid, "journal": journal, "killed_worker": kill})
	}
}

func be64p(b []byte) uint64 {
	var v uint64
	for i := 0; i < 8; i++ {
		v = v<<8 | uint64(b[i])
	}
	return v
}

func errClassStr(s string) string {
	for _, k := range []string{"file does not exist", "no such file", "file already closed", "file exists", "hash ID", "indices must be increasing", "format error", "unexpected EOF", "PANIC"} {
		if strings.Contains(s, k) {
			return strings.ReplaceAll(k, " ", "-")
		}
	}
	return "other"
}

type bIn struct {
	Add  bool
	IDs  string
	Open bool
}
type bOut struct {
	Ok      bool
	Journal string
}

func bModel() porcupine.NondeterministicModel {
	return porcupine.NondeterministicModel{
		Init: func() []interface{} { return []interface{}{""} },
		Step: func(st, in, out interface{}) []interface{} {
			s := st.(string)
			i := in.(bIn)
			o := out.(bOut)
			if i.Add {
				app := s
				if app != "" {
					app += ","
				}
				app += i.IDs
				if i.Open {
					return []interface{}{s, app}
				}
				if o.Ok {
					return []interface{}{app}
				}
				return []interface{}{s}
			}
			if o.Journal == s {
				return []interface{}{s}
			}
			return nil
		},
		Equal: func(a, b interface{}) bool { return a.(string) == b.(string) },
	}
}

// kp: in a round where a worker was killed, lost/partial transactions and unopenable
// directories also refute C06.
func kp(kill bool, props ...string) []string {
	if kill {
		return append(props, "C06")
	}
	return props
}
