package props

import (
	"fmt"
	"os"
	"sort"

	"github.com/google/reftable"
	"verif/harness/gen"
	"verif/harness/rep"
	"verif/harness/rtx"
	"verif/harness/stx"
)

func keepLog(l *gen.Log, e *reftable.LogExpirationConfig) bool {
	if e.Time > 0 && l.Time < e.Time {
		return false
	}
	if e.MaxUpdateIndex != 0 && l.UI > e.MaxUpdateIndex {
		return false
	}
	if e.MinUpdateIndex != 0 && l.UI < e.MinUpdateIndex {
		return false
	}
	return true
}

// RunC13: reflog expiry removes exactly the expired entries.
func RunC13(c *Ctx) {
	r := c.Rep
	r.Rule = "case = one CompactAll(expiry) on a generated stack (0..6 tables, several log entries per ref at chosen times/update indices, log tombstones, refs) with each limit unset / below / equal to / inside / above the data range; expected = reference filter over the model view, refs untouched, kept entries byte-identical, through the same handle and a fresh one; distinct = (stack, expiry config); non-trivial = at least one entry expired and one survived, or a limit equals a data value; round 2 in 60% of the cases: new log entries arrive through Add or NewAddition/Commit on the same handle and the same configuration is applied again (reference filter again)"
	n := c.N(4000, 120000)
	for idx := 0; idx < n; idx++ {
		if !c.Mine(idx) {
			continue
		}
		runC13Case(c, idx)
	}
}

func runC13Case(c *Ctx, idx int) {
	r := c.Rep
	rng := gen.NewRng(gen.Mix(c.Seed^0xc13, int64(idx)))
	gcfg := cfgForHistory(rng, idx)
	cfg := rtx.Config(gcfg)
	hs := gcfg.HashSize()
	dir := c.TempDir(fmt.Sprintf("c13-%d", idx))
	defer os.RemoveAll(dir)
	hc := histCase{Prop: c.Prop, Seed: c.Seed, Index: idx, Gen: "runC13Case", Cfg: gcfg.String()}
	fail := func(props []string, sig, d string) {
		h := hc
		h.Detail = d
		h.Ops = append([]string(nil), hc.Ops...)
		r.Violate(props, sig, d, h)
	}
	st, err := stx.Open(dir, cfg)
	if err != nil {
		fail([]string{"C05"}, "open-failed", err.Error())
		return
	}
	defer func() { stx.SafeClose(st) }()
	setAutoCompact(st, rng.Chance(0.3))
	model := gen.NewModel(hs, gcfg.ExactLog)
	ntab := rng.Intn(7)
	if idx%25 == 0 {
		ntab = 0
	}
	keys := gen.FlatKeys(1 + rng.Intn(5))
	times := []uint64{0, 5, 10, 10, 15, 20, 1 << 40}
	var dataTimes, dataUIs []uint64
	for ti := 0; ti < ntab; ti++ {
		t := &gen.Txn{ID: ti + 1}
		for _, k := range keys {
			if rng.Chance(0.6) {
				tm := times[rng.Intn(len(times))]
				l := gen.Log{Name: k, New: gen.IDHash(ti+1, 0, hs), User: "u", Email: "e", Time: tm, TZ: int16(rng.Intn(100) - 50), Msg: fmt.Sprintf("t%d", ti+1)}
				t.Logs = append(t.Logs, l)
				dataTimes = append(dataTimes, tm)
			}
			if rng.Chance(0.4) {
				t.Refs = append(t.Refs, gen.Ref{Name: k, Kind: gen.KVal, Value: gen.IDHash(ti+1, 1, hs)})
			} else if rng.Chance(0.1) {
				t.Refs = append(t.Refs, gen.Ref{Name: k, Kind: gen.KDel})
			}
		}
		if rng.Chance(0.3) {
			// tombstone for an existing log entry
			var live []gen.LogKey
			for k, l := range model.Logs {
				if !l.Del {
					live = append(live, k)
				}
			}
			sort.Slice(live, func(i, j int) bool {
				if live[i].Name != live[j].Name {
					return live[i].Name < live[j].Name
				}
				return live[i].UI < live[j].UI
			})
			if len(live) > 0 {
				k := live[rng.Intn(len(live))]
				t.Logs = append(t.Logs, gen.Log{Name: k.Name, UI: k.UI, Del: true})
			}
		}
		if len(t.Refs)+len(t.Logs) == 0 {
			t.Refs = append(t.Refs, gen.Ref{Name: keys[0], Kind: gen.KVal, Value: gen.IDHash(ti+1, 2, hs)})
		}
		ui, err := stx.Apply(st, t)
		hc.Ops = append(hc.Ops, fmt.Sprintf("add t%d refs=%d logs=%d ui=%d -> %v", t.ID, len(t.Refs), len(t.Logs), ui, err))
		if err != nil {
			fail([]string{"C04"}, "setup-add-failed|"+errClass(err), fmt.Sprintf("Add failed: %v %s", err, PanicDetail(err)))
			return
		}
		model.Apply(t, ui)
		dataUIs = append(dataUIs, ui)
	}
	// expiry config around the data values
	pickLimit := func(data []uint64) uint64 {
		if len(data) == 0 {
			return uint64(rng.Intn(4))
		}
		v := data[rng.Intn(len(data))]
		switch rng.Intn(6) {
		case 0:
			return 0 // unset
		case 1:
			return v
		case 2:
			return v + 1
		case 3:
			if v > 0 {
				return v - 1
			}
			return v
		case 4:
			return 1 << 50 // above everything
		}
		return 1 // below (almost) everything
	}
	e := &reftable.LogExpirationConfig{}
	switch rng.Intn(5) {
	case 0:
		e.Time = pickLimit(dataTimes)
	case 1:
		e.MinUpdateIndex = pickLimit(dataUIs)
	case 2:
		e.MaxUpdateIndex = pickLimit(dataUIs)
	default:
		e.Time = pickLimit(dataTimes)
		e.MinUpdateIndex = pickLimit(dataUIs)
		e.MaxUpdateIndex = pickLimit(dataUIs)
	}
	wantRefs, beforeLogs := model.View()
	var wantLogs []gen.Log
	boundary := false
	for i := range beforeLogs {
		l := &beforeLogs[i]
		if keepLog(l, e) {
			wantLogs = append(wantLogs, *l)
		}
		if (e.Time != 0 && l.Time == e.Time) || (e.MinUpdateIndex != 0 && l.UI == e.MinUpdateIndex) || (e.MaxUpdateIndex != 0 && l.UI == e.MaxUpdateIndex) {
			boundary = true
		}
	}
	r.Evaluations++
	desc := fmt.Sprintf("CompactAll(Time=%d Min=%d Max=%d) on %d tables, %d log entries -> expect %d", e.Time, e.MinUpdateIndex, e.MaxUpdateIndex, ntab, len(beforeLogs), len(wantLogs))
	hc.Ops = append(hc.Ops, desc)
	err = rtx.Safe(func() error { return st.CompactAll(e) })
	if err != nil {
		sig := "compactall-expiry-error|" + errClass(err)
		if rtx.IsPanic(err) {
			sig = "compactall-expiry-" + PanicSig(err)
		}
		fail([]string{"C13"}, sig, fmt.Sprintf("%s failed: %v %s", desc, err, PanicDetail(err)))
		return
	}
	want := gen.Dump(wantRefs, wantLogs)
	refs, logs, err := stx.View(st)
	if err != nil {
		fail([]string{"C13", "C10"}, "view-error-after-expiry|"+errClass(err), err.Error())
		return
	}
	if got := gen.Dump(refs, logs); got != want {
		cls := mismatchClass(wantRefs, wantLogs, refs, logs)
		if len(logs) > len(wantLogs) {
			cls = "expired-entry-kept"
		} else if len(logs) < len(wantLogs) {
			cls = "live-entry-removed"
		}
		fail([]string{"C13"}, "same-handle|"+cls, fmt.Sprintf("%s: %s", desc, gen.DiffLines(want, got)))
		return
	}
	fd, names, err := stx.FreshView(dir, cfg)
	if err != nil {
		fail([]string{"C13", "C05"}, "fresh-open-failed-after-expiry|"+errClass(err), err.Error())
		return
	}
	if fd != want {
		fail([]string{"C13"}, "fresh-handle|mismatch", fmt.Sprintf("%s: %s", desc, gen.DiffLines(want, fd)))
		return
	}
	if len(names) > 1 {
		fail([]string{"C13"}, "not-compacted", fmt.Sprintf("%s left %d tables", desc, len(names)))
		return
	}
	if leaks := stx.Residue(dir); len(leaks) > 0 {
		fail([]string{"C16"}, "expiry-residue", fmt.Sprintf("after %s the directory holds %v", desc, leaks))
		return
	}
	removed := len(beforeLogs) - len(wantLogs)
	if (removed > 0 && len(wantLogs) > 0) || boundary {
		r.Nontrivial(rep.Hash("c13", fmt.Sprint(c.Seed), fmt.Sprint(idx)))
	}
	r.Count("entries_expired", removed)
	r.Count("entries_kept", len(wantLogs))
	if boundary {
		r.Count("boundary_equal_cases", 1)
	}
	if ntab == 0 {
		r.Count("empty_stacks", 1)
	}
	if len(wantLogs) == 0 && len(wantRefs) == 0 && ntab > 0 {
		r.Count("expiry_emptied_the_stack", 1)
	}
	// a second expiry on the result must be idempotent
	if rng.Chance(0.3) {
		if err := rtx.Safe(func() error { return st.CompactAll(e) }); err != nil {
			fail([]string{"C13"}, "second-expiry-error", fmt.Sprintf("repeating %s failed: %v %s", desc, err, PanicDetail(err)))
			return
		}
		refs, logs, err := stx.View(st)
		if err != nil || gen.Dump(refs, logs) != want {
			fail([]string{"C13"}, "second-expiry-changed-view", fmt.Sprintf("repeating %s changed the view (err %v)", desc, err))
			return
		}
	}
	// round 2: more entries arrive after the expiry - through Stack.Add or through
	// NewAddition/Add/Commit on the same handle - and the SAME configuration is applied
	// again: it must expire exactly the newly arrived entries it covers (an expiry is a
	// function of the stack's content, not of what was asked before)
	if ntab > 0 && rng.Chance(0.6) {
		m2 := model.Clone()
		for k, l := range m2.Logs {
			if l.Del || !keepLog(&l, e) {
				delete(m2.Logs, k)
			}
		}
		for k, rf := range m2.Refs {
			if rf.Kind == gen.KDel {
				delete(m2.Refs, k)
			}
		}
		nnew := 1 + rng.Intn(2)
		via := "add"
		if rng.Chance(0.6) {
			via = "newaddition"
		}
		for j := 0; j < nnew; j++ {
			t := &gen.Txn{ID: 500 + j}
			for _, k := range keys {
				if rng.Chance(0.7) {
					tm := times[rng.Intn(len(times))]
					t.Logs = append(t.Logs, gen.Log{Name: k, New: gen.IDHash(500+j, 0, hs), User: "u", Email: "e", Time: tm, TZ: 30, Msg: fmt.Sprintf("late t%d", 500+j)})
				}
			}
			if len(t.Logs) == 0 {
				t.Logs = append(t.Logs, gen.Log{Name: keys[0], New: gen.IDHash(500+j, 0, hs), User: "u", Email: "e", Time: times[1+rng.Intn(5)], Msg: "late"})
			}
			var ui uint64
			var err error
			if via == "add" {
				ui, err = stx.Apply(st, t)
			} else {
				err = rtx.Safe(func() error {
					add, err := st.NewAddition()
					if err != nil {
						return err
					}
					defer add.Close()
					ui = st.NextUpdateIndex()
					if err := add.Add(func(w *reftable.Writer) error { return stx.WriteTxn(w, t, ui) }); err != nil {
						return err
					}
					return add.Commit()
				})
			}
			hc.Ops = append(hc.Ops, fmt.Sprintf("round 2: %s t%d logs=%d ui=%d -> %v", via, t.ID, len(t.Logs), ui, err))
			if err != nil {
				fail([]string{"C04"}, "setup-add-failed|"+errClass(err), fmt.Sprintf("%s after an expiry failed: %v %s", via, err, PanicDetail(err)))
				return
			}
			m2.Apply(t, ui)
		}
		wantRefs2, before2 := m2.View()
		var wantLogs2 []gen.Log
		for i := range before2 {
			if keepLog(&before2[i], e) {
				wantLogs2 = append(wantLogs2, before2[i])
			}
		}
		r.Evaluations++
		desc2 := fmt.Sprintf("round 2 (%d transactions via %s, then the same CompactAll(Time=%d Min=%d Max=%d)): %d log entries -> expect %d", nnew, via, e.Time, e.MinUpdateIndex, e.MaxUpdateIndex, len(before2), len(wantLogs2))
		hc.Ops = append(hc.Ops, desc2)
		if err := rtx.Safe(func() error { return st.CompactAll(e) }); err != nil {
			fail([]string{"C13"}, "second-expiry-error", fmt.Sprintf("%s failed: %v %s", desc2, err, PanicDetail(err)))
			return
		}
		want2 := gen.Dump(wantRefs2, wantLogs2)
		refs, logs, err := stx.View(st)
		if err != nil {
			fail([]string{"C13", "C10"}, "view-error-after-expiry|"+errClass(err), err.Error())
			return
		}
		if got := gen.Dump(refs, logs); got != want2 {
			cls := mismatchClass(wantRefs2, wantLogs2, refs, logs)
			if len(logs) > len(wantLogs2) {
				cls = "expired-entry-kept"
			} else if len(logs) < len(wantLogs2) {
				cls = "live-entry-removed"
			}
			fail([]string{"C13"}, "repeated-config|same-handle|"+cls, fmt.Sprintf("%s: %s", desc2, gen.DiffLines(want2, got)))
			return
		}
		if fd, _, err := stx.FreshView(dir, cfg); err != nil || fd != want2 {
			fail([]string{"C13"}, "repeated-config|fresh-handle|mismatch", fmt.Sprintf("%s: err %v %s", desc2, err, gen.DiffLines(want2, fd)))
			return
		}
		r.Count("repeated_config_rounds", 1)
		if len(before2) > len(wantLogs2) {
			r.Count("repeated_config_rounds_expiring_new_entries", 1)
			r.Nontrivial(rep.Hash("c13r2", fmt.Sprint(c.Seed), fmt.Sprint(idx)))
		}
	}
	if idx%131 == 0 {
		r.Sample(map[string]interface{}{"index": idx, "cfg": gcfg.String(), "ops": hc.Ops})
	}
}
