package props

import (
	"time"
	"fmt"
	"math/rand"
	"os"
	"path/filepath"
	"sort"
	"strings"

	"github.com/google/reftable"
	"github.com/google/reftable/verifvfs/vos"
	"verif/harness/eng"
	"verif/harness/gen"
	"verif/harness/rep"
)

// engCase is the replay artefact of an engine-A violation.
type engCase struct {
	Prop     string     `json:"prop"`
	Seed     int64      `json:"seed"`
	Tier     string     `json:"tier"`
	Index    int        `json:"index"`
	Family   string     `json:"family"`
	Scenario string     `json:"scenario"`
	Policy   string     `json:"policy"`
	Cfg      string     `json:"cfg"`
	Init     string     `json:"initial_stack"`
	Scripts  [][]string `json:"scripts"`
	Results  [][]string `json:"results"`
	Crash    string     `json:"crash,omitempty"`
	Step     int        `json:"violation_step"`
	Trace    []string   `json:"fs_trace_tail"`
}

type engRunner struct {
	c    *Ctx
	lab  *eng.Lab
	disk *eng.Lab // same, on the disk-backed file system
	nrun int
	// clockAhead: applied to every scenario run while set (late-clock families)
	clockAhead time.Duration
	// coarseMtime: applied to every scenario run while set (coarse-mtime families)
	coarseMtime time.Duration
	// compactionOwned: the runner is C07's - see run()
	compactionOwned bool
	// which call kinds overlapped / pre-emption coverage
}

func newEngRunner(c *Ctx) *engRunner {
	work := filepath.Join(c.Work, fmt.Sprintf("engA-%s-%d", c.Prop, c.Shard))
	os.RemoveAll(work)
	os.MkdirAll(work, 0755)
	lab := eng.NewLab(work)
	if haveAutoCompactSwitch {
		lab.SetAuto = func(st *reftable.Stack, on bool) { setAutoCompact(st, on) }
	}
	er := &engRunner{c: c, lab: lab}
	if base := os.Getenv("VERIF_DISKWORK"); base != "" {
		dw := filepath.Join(base, fmt.Sprintf("engA-%s-%d", c.Prop, c.Shard))
		os.RemoveAll(dw)
		os.MkdirAll(dw, 0755)
		er.disk = eng.NewLab(dw)
		er.disk.SetAuto = lab.SetAuto
	}
	return er
}

func (e *engRunner) cleanup() {
	os.RemoveAll(e.lab.Work)
	if e.disk != nil {
		os.RemoveAll(e.disk.Work)
	}
}

// onDisk runs f with the scenarios placed on the disk-backed file system.
func (e *engRunner) onDisk(f func()) {
	if e.disk == nil {
		f()
		return
	}
	old := e.lab
	e.lab = e.disk
	defer func() { e.lab = old }()
	e.c.Rep.Count("scenario_groups_on_disk_fs", 1)
	f()
}

func scriptStrings(scripts [][]eng.Call) [][]string {
	var out [][]string
	for _, s := range scripts {
		var l []string
		for _, c := range s {
			l = append(l, c.String())
		}
		out = append(out, l)
	}
	return out
}

// run executes a scenario and folds what the monitors saw into the report.
func (e *engRunner) run(sc *eng.Scenario, family string, idx int) *eng.Result {
	c := e.c
	r := c.Rep
	e.nrun++
	if e.clockAhead != 0 && sc.ClockAhead == 0 {
		sc.ClockAhead = e.clockAhead
		sc.Name = "late clock (every file looks decades old): " + sc.Name
	}
	if e.coarseMtime != 0 && sc.CoarseMtime == 0 {
		sc.CoarseMtime = e.coarseMtime
		sc.Name = "coarse time stamps (all files carry the same mtime): " + sc.Name
	}
	res := e.lab.Run(sc, "run")
	r.Evaluations++
	if res.SetupErr != nil {
		r.Inconclusive++
		r.Note("scenario setup failed: %v", res.SetupErr)
		return res
	}
	w := res.W
	if res.Aborted {
		r.Inconclusive++
		r.Note("scenario aborted by the step watchdog (%s %s)", family, sc.Name)
	}
	if w.LinUnknown {
		r.Inconclusive++
		r.Note("linearizability checker timed out (%s)", sc.Name)
	}
	r.Count("fs_operations_monitored", w.OpsChecked)
	r.Count("commits_observed", w.Commits)
	r.Count("lock_creates", w.LockCreates)
	r.Count("lock_contentions", w.LockContend)
	r.Count("lock_removals", w.LockRemoves)
	r.Count("fresh_opens_by_monitors", w.FreshOpens)
	r.Count("tables_decoded_by_monitors", w.TablesDecoded)
	r.Count("view_checks", w.ViewChecks)
	r.Count("stale_but_consistent_views", w.StaleViews)
	r.Count("history_ops_checked_for_linearizability", w.HistOps)
	r.Count("dir_checks_after_single_ops", w.DirChecks)
	if len(w.Crashed) > 0 {
		r.Count("crashes_injected", len(w.Crashed))
	}
	for s := range w.Sites {
		r.SetAdd("hook_sites", s)
	}
	for s := range w.DirStates {
		r.SetAdd("dir_states", s)
	}
	for s := range w.Contention {
		r.SetAdd("lock_contention_pairs", s)
	}
	r.SetAdd("schedules", fmt.Sprintf("%x", rep.Hash(res.Sig)))
	if w.Overlap {
		r.Nontrivial(rep.Hash(family, sc.GCfg.String(), sc.Init.String(), res.Sig, fmt.Sprint(sc.CrashProc, sc.CrashAt)))
	}
	for _, v := range w.Viols {
		ec := engCase{Prop: c.Prop, Seed: c.Seed, Tier: c.Tier, Index: idx, Family: family, Scenario: sc.Name, Policy: sc.Policy.Name(), Cfg: sc.GCfg.String(),
			Init: sc.Init.String(), Scripts: scriptStrings(sc.Scripts), Step: v.Step, Trace: res.Trace}
		for _, a := range res.Actors {
			ec.Results = append(ec.Results, a.Results)
		}
		if sc.CrashAt > 0 {
			ec.Crash = fmt.Sprintf("p%d before its op %d", sc.CrashProc, sc.CrashAt)
		}
		props := v.Props
		if sc.CrashAt > 0 && !hasProp(props, "C06") && (hasProp(props, "C04") || hasProp(props, "C05")) {
			// in a crash run, a lost/partial transaction or an unopenable directory also refutes C06
			props = append(append([]string{}, props...), "C06")
		}
		if e.compactionOwned && !hasProp(props, "C07") && onlyCompactions(sc.Scripts[0]) && lostDataSig(v.Sig) {
			// process 0 ran nothing but compactions: committed data that became
			// unreadable or changed was changed by a compaction (C07), whatever else it breaks
			props = append(append([]string{}, props...), "C07")
		}
		r.Violate(props, v.Sig, v.Msg, ec)
	}
	return res
}

func onlyCompactions(script []eng.Call) bool {
	n := 0
	for _, c := range script {
		switch c.Kind {
		case "compactall", "autocompact", "compactexpiry", "compactrange":
			n++
		case "open", "reopen", "read", "fresh":
		default:
			return false
		}
	}
	return n > 0
}

func lostDataSig(sig string) bool {
	for _, p := range []string{"final-open-failed", "final-state-differs", "list-names-missing-table", "listed-table-removed", "listed-table-unreadable", "listed-table-malformed", "open-failed"} {
		if strings.HasPrefix(sig, p) {
			return true
		}
	}
	return false
}

// ---- scenario vocabulary -----------------------------------------------------------

type txnSource struct {
	rng   *gen.Rng
	next  int
	keys  []string
	model *gen.Model
}

func newTxnSource(seed int64, hs int) *txnSource {
	return &txnSource{rng: gen.NewRng(seed), next: 100, keys: gen.FlatKeys(4), model: gen.NewModel(hs, false)}
}

func (t *txnSource) txn(filler int) *gen.Txn {
	t.next++
	return gen.GenTxn(t.rng, t.next, t.model, gen.TxnOpts{Keys: t.keys, MaxRefs: 2, Journal: true, DelP: 0.25, LogTombP: 0, Filler: filler})
}

// delAll deletes every key of the alphabet (existing or not); other creates refs outside
// the alphabet: a deletion followed by additions that do not re-create what was deleted.
func (t *txnSource) delAll() *gen.Txn {
	t.next++
	tx := &gen.Txn{ID: t.next}
	for _, k := range t.keys {
		tx.Refs = append(tx.Refs, gen.Ref{Name: k, Kind: gen.KDel})
	}
	t.journal(tx)
	return tx
}

func (t *txnSource) other() *gen.Txn {
	t.next++
	tx := &gen.Txn{ID: t.next, Refs: []gen.Ref{{Name: fmt.Sprintf("refs/other/%04d", t.next), Kind: gen.KVal, Value: gen.IDHash(t.next, 1, t.model.HS)}}}
	t.journal(tx)
	return tx
}

func (t *txnSource) journal(tx *gen.Txn) {
	v := gen.IDHash(tx.ID, 999, t.model.HS)
	tx.Refs = append(tx.Refs, gen.Ref{Name: gen.JournalRef, Kind: gen.KVal, Value: v})
	tx.Logs = append(tx.Logs, gen.Log{Name: gen.JournalRef, New: v, User: "j", Email: "j@x", Time: 1<<40 + uint64(tx.ID), Msg: fmt.Sprintf("t%d", tx.ID)})
	gen.SortRefs(tx.Refs)
}

func (t *txnSource) bad() *gen.Txn {
	t.next++
	return &gen.Txn{ID: t.next, Refs: []gen.Ref{{Name: "refs/heads//bad", Kind: gen.KVal, Value: gen.IDHash(t.next, 0, t.model.HS)}}}
}

// mkCalls turns a compact description into calls, e.g. "add,add,compactall".
func (t *txnSource) mkCalls(desc string) []eng.Call {
	var out []eng.Call
	if desc == "" {
		return nil
	}
	for _, k := range strings.Split(desc, ",") {
		switch k {
		case "add":
			out = append(out, eng.Call{Kind: "add", Txns: []*gen.Txn{t.txn(0)}})
		case "addbig":
			out = append(out, eng.Call{Kind: "add", Txns: []*gen.Txn{t.txn(40)}})
		case "adddel":
			out = append(out, eng.Call{Kind: "add", Txns: []*gen.Txn{t.delAll()}})
		case "addother":
			out = append(out, eng.Call{Kind: "add", Txns: []*gen.Txn{t.other()}})
		case "addmulti":
			out = append(out, eng.Call{Kind: "addmulti", Txns: []*gen.Txn{t.txn(0), t.txn(0)}})
		case "addbad":
			out = append(out, eng.Call{Kind: "addbad", Txns: []*gen.Txn{t.bad()}})
		case "addmulti3":
			out = append(out, eng.Call{Kind: "addmulti", Txns: []*gen.Txn{t.txn(0), t.txn(0), t.txn(0)}})
		case "addmultibad":
			out = append(out, eng.Call{Kind: "addmultibad", Txns: []*gen.Txn{t.txn(0), t.txn(0), t.bad()}})
		case "addmultistale":
			out = append(out, eng.Call{Kind: "addmultistale", Txns: []*gen.Txn{t.txn(0), t.txn(0)}})
		case "addmultiabandon":
			out = append(out, eng.Call{Kind: "addmultiabandon", Txns: []*gen.Txn{t.txn(0), t.txn(0)}})
		case "compactexpiry":
			out = append(out, eng.Call{Kind: "compactexpiry", Expiry: &reftable.LogExpirationConfig{Time: 1003}})
		default:
			if strings.HasPrefix(k, "cr") && len(k) == 4 {
				// cr<first><last>: compaction of an explicit contiguous range
				out = append(out, eng.Call{Kind: "compactrange", First: int(k[2] - '0'), Last: int(k[3] - '0')})
				continue
			}
			out = append(out, eng.Call{Kind: k})
		}
	}
	return out
}

var engRecipes = []eng.Recipe{{}, {0}, {0, 0}, {60, 0, 0}, {200, 40, 0, 0}, {0, 0, 0, 0, 0, 0, 0}, {-1, -2, 0}}

func engCfg(i int) gen.Cfg {
	c := gen.Cfg{SHA256: i%2 == 1}
	if i%4 >= 2 {
		c.BlockSize = 512
	}
	return c
}

// sweepPair runs A paused before every one of its hooked operations while B runs.
// Returns the number of executions.
func (e *engRunner) sweepPair(family string, idx int, gcfg gen.Cfg, rec eng.Recipe, aDesc, bDesc string, cDesc string, preOpen bool, every bool) int {
	n := 0
	for k := 1; k < 400; k++ {
		ts := newTxnSource(gen.Mix(e.c.Seed, int64(idx)*1000+7), gcfg.HashSize())
		scripts := [][]eng.Call{ts.mkCalls(aDesc), ts.mkCalls(bDesc)}
		if cDesc != "" {
			scripts = append(scripts, ts.mkCalls(cDesc))
		}
		if !preOpen {
			for i := range scripts {
				scripts[i] = append([]eng.Call{{Kind: "open"}}, scripts[i]...)
			}
		}
		pol := &eng.Sweep1{A: 0, K: k}
		sc := &eng.Scenario{Name: fmt.Sprintf("A=[%s] paused before its op %d while B=[%s] C=[%s] run; preopen=%v", aDesc, k, bDesc, cDesc, preOpen),
			GCfg: gcfg, Init: rec, Scripts: scripts, Policy: pol, SkipTmpWrites: true, PreOpen: preOpen, CheckDirEvery: every}
		res := e.run(sc, family, idx)
		n++
		if res.SetupErr != nil || !pol.Paused {
			break // A finished before the pause could take effect: the sweep is complete
		}
		if res.W != nil {
			e.c.Rep.SetAdd("preemption_pairs", fmt.Sprintf("%s|k-site|%s", firstWord(aDesc), bDesc))
		}
	}
	return n
}

func firstWord(s string) string {
	if i := strings.Index(s, ","); i > 0 {
		return s[:i]
	}
	return s
}

// sweepTriple: A paused before op ka, B paused before op kb, C runs, then B, then A.
func (e *engRunner) sweepTriple(family string, idx int, gcfg gen.Cfg, rec eng.Recipe, aDesc, bDesc, cDesc string, stepA, stepB int) int {
	return e.sweepTripleX(family, idx, gcfg, rec, aDesc, bDesc, cDesc, stepA, stepB, false)
}

func (e *engRunner) sweepTripleX(family string, idx int, gcfg gen.Cfg, rec eng.Recipe, aDesc, bDesc, cDesc string, stepA, stepB int, every bool) int {
	n := 0
	for ka := 1; ka < 200; ka += stepA {
		anyPausedA := false
		for kb := 1; kb < 200; kb += stepB {
			ts := newTxnSource(gen.Mix(e.c.Seed, int64(idx)*1000+11), gcfg.HashSize())
			scripts := [][]eng.Call{ts.mkCalls(aDesc), ts.mkCalls(bDesc), ts.mkCalls(cDesc)}
			pol := &eng.Sweep2{A: 0, KA: ka, B: 1, KB: kb}
			sc := &eng.Scenario{Name: fmt.Sprintf("A=[%s] paused before op %d, B=[%s] paused before op %d, C=[%s] runs, then B, then A", aDesc, ka, bDesc, kb, cDesc),
				GCfg: gcfg, Init: rec, Scripts: scripts, Policy: pol, SkipTmpWrites: true, PreOpen: true, CheckDirEvery: every}
			res := e.run(sc, family, idx)
			n++
			if res.SetupErr != nil {
				return n
			}
			if !pol.Paused {
				break
			}
			anyPausedA = true
		}
		if !anyPausedA {
			break
		}
	}
	return n
}

var pctKinds = []string{"add", "add", "add", "addbig", "addmulti", "compactall", "autocompact", "clean", "reopen", "close,open", "fresh", "read", "addempty", "addbad", "compactexpiry", "cr01", "cr12", "cr23", "addmultibad", "addmultiabandon", "addmultistale"}

// randomScenario builds a PCT/uniform scenario.
func (e *engRunner) randomScenario(family string, idx int, seed int64) {
	e.randomScenarioX(family, idx, seed, pctKinds, false, 0)
}

func (e *engRunner) randomScenarioX(family string, idx int, seed int64, kinds []string, every bool, minProcs int) {
	rng := rand.New(rand.NewSource(gen.Mix(seed, int64(idx))))
	gcfg := engCfg(rng.Intn(4))
	rec := engRecipes[rng.Intn(len(engRecipes))]
	np := 2 + rng.Intn(3)
	if np < minProcs {
		np = minProcs
	}
	ts := newTxnSource(gen.Mix(seed, int64(idx)+5), gcfg.HashSize())
	var scripts [][]eng.Call
	for p := 0; p < np; p++ {
		nc := 1 + rng.Intn(4)
		var ds []string
		for i := 0; i < nc; i++ {
			ds = append(ds, kinds[rng.Intn(len(kinds))])
		}
		s := ts.mkCalls(strings.Join(ds, ","))
		s = append([]eng.Call{{Kind: "open"}}, s...)
		scripts = append(scripts, s)
	}
	var pol eng.Policy
	if rng.Intn(4) == 0 {
		pol = &eng.Uniform{Rng: rng}
	} else {
		pol = eng.NewPCT(rng, np, 1+rng.Intn(4), 60*np)
	}
	sc := &eng.Scenario{Name: fmt.Sprintf("random %d processes", np), GCfg: gcfg, Init: rec, Scripts: scripts, Policy: pol, SkipTmpWrites: true, CheckDirEvery: every}
	e.run(sc, family, idx)
}

// randomFaultScenario: a random concurrent scenario in which one filesystem operation of
// one process fails with an injected I/O error.
func (e *engRunner) randomFaultScenario(family string, idx int, seed int64, kinds []string, every bool) {
	rng := rand.New(rand.NewSource(gen.Mix(seed^0xfa17, int64(idx))))
	gcfg := engCfg(rng.Intn(4))
	rec := engRecipes[rng.Intn(len(engRecipes))]
	np := 2 + rng.Intn(2)
	ts := newTxnSource(gen.Mix(seed, int64(idx)+6), gcfg.HashSize())
	var scripts [][]eng.Call
	for p := 0; p < np; p++ {
		nc := 1 + rng.Intn(3)
		var ds []string
		for i := 0; i < nc; i++ {
			ds = append(ds, kinds[rng.Intn(len(kinds))])
		}
		s := ts.mkCalls(strings.Join(ds, ","))
		s = append([]eng.Call{{Kind: "open"}}, s...)
		scripts = append(scripts, s)
	}
	var pol eng.Policy
	if rng.Intn(4) == 0 {
		pol = &eng.Uniform{Rng: rng}
	} else {
		pol = eng.NewPCT(rng, np, 1+rng.Intn(3), 60*np)
	}
	fp := rng.Intn(np)
	fa := 2 + rng.Intn(70)
	sc := &eng.Scenario{Name: fmt.Sprintf("random %d processes, I/O error at operation %d of p%d", np, fa, fp), GCfg: gcfg, Init: rec, Scripts: scripts, Policy: pol,
		CheckDirEvery: every, FaultProc: fp, FaultAt: fa, HookReads: !every && rng.Intn(2) == 0}
	res := e.run(sc, family, idx)
	if res.SetupErr == nil && res.Procs[fp].FaultFired != nil {
		e.c.Rep.Count("io_faults_injected", 1)
		op := res.Procs[fp].FaultFired
		e.c.Rep.SetAdd("io_fault_sites", op.Kind+"|"+vos.PathClass(op.Path)+"|"+op.Site+"|in "+op.Call)
	}
}

type pairCase struct {
	cfg     int
	rec     eng.Recipe
	a, b, c string
	preOpen bool
}

func pairCases(aKinds, bSeqs []string, recipes []eng.Recipe, withOpenVariant bool) []pairCase {
	var out []pairCase
	i := 0
	for _, rec := range recipes {
		for _, a := range aKinds {
			for _, b := range bSeqs {
				out = append(out, pairCase{cfg: i % 4, rec: rec, a: a, b: b, preOpen: true})
				if withOpenVariant && i%5 == 0 {
					out = append(out, pairCase{cfg: (i + 1) % 4, rec: rec, a: a, b: b, preOpen: false})
				}
				i++
			}
		}
	}
	return out
}

func engRule(extra string) string {
	return "case = one execution of 2..4 virtual processes (real Stack handles driven by scripts of Add / multi-table Addition / CompactAll / AutoCompact / Clean / Close / open / reads) on one real directory under the token-passing scheduler: pause sweeps (process A parked before each of its filesystem operations in turn while the others run), nested sweeps over triples, PCT/uniform random schedules, and - where the runner lists them - I/O-fault sweeps (each hooked filesystem operation of a call fails once with an injected error; reads of table files included), fault-inside-window sweeps, random schedules with one injected fault, slow-clock sweeps, late-clock sweeps (virtual clock decades after the files' time stamps), coarse-mtime sweeps (all files carry equal time stamps), table-unlink fault sweeps; monitors run after every hooked filesystem operation. distinct = (initial stack, config, schedule signature = sequence of (process, call site)); non-trivial = API calls of two processes overlapped. " + extra
}

// RunC04: linearizable transactional store.
func RunC04(c *Ctx) {
	r := c.Rep
	r.Rule = engRule("Deciding monitors for C04: M-commit (every rename onto tables.list must yield the previous view or the previous view plus the committer's transaction), Add result <=> committed exactly once, final fresh view == fold of commits, porcupine linearizability check of the client-boundary history.")
	e := newEngRunner(c)
	defer e.cleanup()
	aKinds := []string{"add", "addmulti", "compactall", "autocompact", "clean", "add,add", "addempty", "compactexpiry"}
	bSeqs := []string{"add", "add,add", "compactall", "add,compactall", "autocompact", "clean", "addmulti", "close"}
	recs := []eng.Recipe{{}, {0, 0}, {60, 0, 0}, {200, 40, 0, 0}}
	cases := pairCases(aKinds, bSeqs, recs, true)
	if !c.Thorough() {
		// quick: every pair on two recipes, the rest sampled
		var q []pairCase
		for i, pc := range cases {
			if len(pc.rec) == 2 || len(pc.rec) == 3 || i%3 == 0 {
				q = append(q, pc)
			}
		}
		cases = q
	}
	idx := 0
	for _, pc := range cases {
		if c.Mine(idx) {
			e.sweepPair("pair-sweep", idx, engCfg(pc.cfg), pc.rec, pc.a, pc.b, pc.c, pc.preOpen, false)
		}
		idx++
	}
	// triples: compaction windows with a third writer
	triples := [][3]string{{"autocompact", "add", "add"}, {"compactall", "compactall", "add"}, {"autocompact", "autocompact", "add,add"}, {"add", "compactall", "add"}, {"compactall", "add", "compactall"}}
	trecs := []eng.Recipe{{60, 0, 0}, {200, 40, 0, 0}}
	step := 3
	if c.Thorough() {
		step = 1
	}
	for ti, t := range triples {
		for ri, rec := range trecs {
			if c.Mine(idx) {
				e.sweepTriple("triple-sweep", idx, engCfg(ti+ri), rec, t[0], t[1], t[2], step, step)
			}
			idx++
		}
	}
	idx = e.explicitRanges(idx, false)
	idx = e.lateClockPairs(idx, cases, c.N(19, 5), false)
	idx = e.coarseMtimePairs(idx, cases, c.N(13, 4), false)
	// I/O errors: a call failed by an injected error takes effect entirely or not at
	// all, a call that still returns nil has committed exactly its transaction
	idx = e.faultFamilies(idx, false, "", 3)
	// two processes alternating twice (cubic in the number of hook points): thorough only
	if c.Thorough() {
		for pi, pr := range [][2]string{{"add", "add"}, {"add", "compactall"}, {"autocompact", "add"}, {"compactall", "add,add"}, {"add", "autocompact"}, {"compactall", "compactall"}} {
			for ri, rec := range []eng.Recipe{{60, 0, 0}, {0, 0}} {
				if c.Mine(idx) {
					e.sweepPingPong("pingpong-sweep", idx, engCfg(pi+ri), rec, pr[0], pr[1], 2)
				}
				idx++
			}
		}
	}
	n := c.N(4000, 150000)
	for i := 0; i < n; i++ {
		if c.Mine(idx) {
			e.randomScenario("random", idx, c.Seed)
		}
		idx++
	}
	idx = e.faultPauseFamilies(idx)
	for i := 0; i < c.N(800, 40000); i++ {
		if c.Mine(idx) {
			e.randomFaultScenario("random+io-fault", idx, c.Seed, pctKinds, false)
		}
		idx++
	}
	r.Count("scenario_cases", idx)
	// sequential single-handle histories (an Add or compaction by the only handle never
	// fails) and records at the capacity of a block
	for i := 0; i < c.N(300, 6000); i++ {
		if c.Mine(i) {
			runHistory(c, "runHistory", 2000000+i, nil)
		}
	}
	for i := 0; i < 24; i++ {
		if c.Mine(i) {
			runCapacityWindow(c, i)
		}
	}
	// engine B: real processes, injected delays, observer, kill -9 (cross-validation)
	runEngB(c, c.N(16, 300))
	sampleEng(c, e)
}

// explicitRanges: concurrent compactions of explicitly chosen disjoint / overlapping /
// nested ranges (reachable through the compactRange export wrapper only), with adds.
func (e *engRunner) explicitRanges(idx int, every bool) int {
	if !haveCompactRange {
		e.c.Rep.Note("export wrapper for compactRange unavailable: explicit-range compaction scenarios skipped")
		return idx
	}
	pairs := [][2]string{{"cr23", "cr01"}, {"cr23", "cr01,add"}, {"cr12", "cr01"}, {"cr01", "cr23,add"}, {"cr23", "add,cr01,add"},
		{"cr13", "cr01"}, {"cr34", "cr02,add"}, {"cr22", "cr01"}, {"cr12", "cr34,add"}, {"cr24", "cr01,cr00,add"}}
	// a wider range arriving while a sub-range is locked (and the other way round); added
	// later, with an index space of their own so that everything else keeps its index
	wider := [][2]string{{"cr23", "cr03"}, {"cr12", "cr03,add"}, {"cr03", "cr23"}, {"cr34", "cr04"}}
	recs := []eng.Recipe{{0, 0, 0, 0}, {0, 0, 0, 0, 0}, {30, 0, 0, 10, 0}, {-1, -2, 0, 0, 0}}
	for pi, pr := range pairs {
		for ri, rec := range recs {
			if e.c.Mine(idx) {
				e.sweepPair("explicit-range-compactions", idx, engCfg(pi+ri), rec, pr[0], pr[1], "", true, every)
			}
			idx++
		}
	}
	widx := 9000000
	for pi, pr := range wider {
		for ri, rec := range recs {
			if e.c.Mine(widx) {
				e.sweepPair("explicit-range-compactions", widx, engCfg(pi+ri), rec, pr[0], pr[1], "", true, every)
			}
			widx++
		}
	}
	return idx
}

func sampleEng(c *Ctx, e *engRunner) {
	// a sample execution written out
	ts := newTxnSource(1, 20)
	sc := &eng.Scenario{Name: "sample: A=[add] paused before its op 9 while B=[add,compactall] runs", GCfg: gen.Cfg{}, Init: eng.Recipe{0, 0},
		Scripts: [][]eng.Call{ts.mkCalls("add"), ts.mkCalls("add,compactall")}, Policy: &eng.Sweep1{A: 0, K: 9}, SkipTmpWrites: true, PreOpen: true}
	res := e.lab.Run(sc, "sample")
	if res.W == nil {
		return
	}
	var results [][]string
	for _, a := range res.Actors {
		results = append(results, a.Results)
	}
	var vers []string
	for _, v := range res.W.Versions {
		vers = append(vers, fmt.Sprintf("%s by p%d at step %d: %d tables", v.What, v.By, v.Step, len(v.Names)))
	}
	sites := make([]string, 0)
	for s := range res.W.Sites {
		sites = append(sites, s)
	}
	sort.Strings(sites)
	if len(sites) > 12 {
		sites = sites[:12]
	}
	c.Rep.Sample(map[string]interface{}{"scenario": sc.Name, "scripts": scriptStrings(sc.Scripts), "results": results, "steps": res.Steps,
		"commits_observed": vers, "violations": len(res.W.Viols), "some_hook_sites": sites})
}

func hasProp(props []string, p string) bool {
	for _, x := range props {
		if x == p {
			return true
		}
	}
	return false
}

// sweepStale: process 2 runs its script first (making the pre-opened handles of A and B
// stale), then A is paused before each of its filesystem operations while B runs.
func (e *engRunner) sweepStale(family string, idx int, gcfg gen.Cfg, rec eng.Recipe, proDesc, aDesc, bDesc string) int {
	n := 0
	for k := 1; k < 400; k++ {
		ts := newTxnSource(gen.Mix(e.c.Seed, int64(idx)*1000+19), gcfg.HashSize())
		scripts := [][]eng.Call{ts.mkCalls(aDesc), ts.mkCalls(bDesc), ts.mkCalls(proDesc)}
		pol := &eng.Sweep1After{First: 2, A: 0, K: k}
		sc := &eng.Scenario{Name: fmt.Sprintf("first P=[%s]; then A=[%s] (stale handle) paused before its op %d while B=[%s] runs", proDesc, aDesc, k, bDesc),
			GCfg: gcfg, Init: rec, Scripts: scripts, Policy: pol, SkipTmpWrites: true, PreOpen: true}
		res := e.run(sc, family, idx)
		n++
		if res.SetupErr != nil || !pol.Paused {
			break
		}
	}
	return n
}

// sweepPingPong: A to k1, B to j, A to k2, B to the end, A to the end - for all k1 < k2 and j
// on a stride (cubic, thorough tier only).
func (e *engRunner) sweepPingPong(family string, idx int, gcfg gen.Cfg, rec eng.Recipe, aDesc, bDesc string, stride int) int {
	n := 0
	for k1 := 1; k1 < 120; k1 += stride {
		any1 := false
		for j := 1; j < 120; j += stride {
			any2 := false
			for k2 := k1 + 1; k2 < 160; k2 += stride {
				ts := newTxnSource(gen.Mix(e.c.Seed, int64(idx)*1000+23), gcfg.HashSize())
				pol := &eng.PingPong{A: 0, B: 1, K1: k1, J: j, K2: k2}
				sc := &eng.Scenario{Name: fmt.Sprintf("A=[%s] to op %d, B=[%s] to op %d, A to op %d, B finishes, A finishes", aDesc, k1, bDesc, j, k2),
					GCfg: gcfg, Init: rec, Scripts: [][]eng.Call{ts.mkCalls(aDesc), ts.mkCalls(bDesc)}, Policy: pol, SkipTmpWrites: true, PreOpen: true}
				res := e.run(sc, family, idx)
				n++
				if res.SetupErr != nil {
					return n
				}
				if !pol.Effective {
					break
				}
				any2, any1 = true, true
			}
			if !any2 {
				break
			}
		}
		if !any1 {
			break
		}
	}
	return n
}
