package props

import (
	"bytes"
	"sync"
	"io"
	"fmt"
	"math"
	"os"
	"path/filepath"
	"sort"

	"github.com/google/reftable"
	"verif/harness/dec"
	"verif/harness/gen"
	"verif/harness/rep"
	"verif/harness/rtx"
)

type tableCase struct {
	Prop   string `json:"prop"`
	Seed   int64  `json:"seed"`
	Index  int    `json:"index"`
	Gen    string `json:"generator"`
	Cfg    string `json:"cfg"`
	Note   string `json:"note"`
	Detail string `json:"detail,omitempty"`
}

func mkCase(c *Ctx, genName string, idx int, t *gen.Table, detail string) tableCase {
	return tableCase{Prop: c.Prop, Seed: c.Seed, Index: idx, Gen: genName, Cfg: t.Cfg.String(), Note: t.Note, Detail: detail}
}

// writeOrClassify writes a generated table; returns data, ok. Out-of-domain
// (rejected) inputs and writer panics are accounted for.
func writeOrClassify(c *Ctx, genName string, idx int, t *gen.Table, props []string) ([]byte, bool) {
	r := c.Rep
	data, err := rtx.WriteTable(t)
	if err != nil {
		if rtx.IsPanic(err) {
			r.Violate(props, "writer-"+PanicSig(err), "writer panicked on in-domain input: "+PanicDetail(err), mkCase(c, genName, idx, t, ""))
			return nil, false
		}
		if err == reftable.ErrEmptyTable {
			if len(t.Refs)+len(t.Logs) != 0 {
				r.Violate(props, "writer-empty-table-for-nonempty-input", "Close returned ErrEmptyTable although records were added", mkCase(c, genName, idx, t, ""))
				return nil, false
			}
			r.Count("empty_tables", 1)
			return data, true
		}
		r.OutOfDomain++
		r.SetAdd("rejections", trimErr(err))
		return nil, false
	}
	if len(t.Refs)+len(t.Logs) == 0 {
		r.Violate(props, "writer-no-empty-table-error", "Close returned nil for a table without records", mkCase(c, genName, idx, t, ""))
		return nil, false
	}
	return data, true
}

func trimErr(err error) string {
	s := err.Error()
	// keep the class of the message, not the record
	for _, k := range []string{"too large for block size", "outside bounds", "single line", "invalid blocksize"} {
		if contains(s, k) {
			return k
		}
	}
	if len(s) > 60 {
		s = s[:60]
	}
	return s
}

func contains(s, sub string) bool {
	return len(sub) <= len(s) && (func() bool {
		for i := 0; i+len(sub) <= len(s); i++ {
			if s[i:i+len(sub)] == sub {
				return true
			}
		}
		return false
	})()
}

func openTable(c *Ctx, data []byte, idx int, viaFile bool) (*reftable.Reader, func(), error) {
	if viaFile {
		fn := filepath.Join(c.Work, fmt.Sprintf("t-%s-%d-%d.ref", c.Prop, c.Shard, idx))
		if err := os.WriteFile(fn, data, 0644); err != nil {
			return nil, nil, err
		}
		var rd *reftable.Reader
		err := rtx.Safe(func() error {
			bs, err := reftable.NewFileBlockSource(fn)
			if err != nil {
				return err
			}
			rd, err = reftable.NewReader(bs, "t")
			return err
		})
		return rd, func() {
			if rd != nil {
				rd.Close()
			}
			os.Remove(fn)
		}, err
	}
	rd, err := rtx.OpenBytes(data, "t")
	return rd, func() {}, err
}

// RunC01: a written table reads back exactly.
func RunC01(c *Ctx) {
	r := c.Rep
	r.Rule = "case = one generated table (config x limits x record set from gen.GenTable(seed, index)) written by the real Writer and scanned by the real Reader; distinct = hash of the produced file bytes; non-trivial = the writer accepted it and it holds >= 2 records; also counted as cases: the same table written while another Writer is active (nested in every Write call / eight goroutines) - bytes must equal the undisturbed table"
	n := c.N(1500, 60000)
	props := []string{"C01"}
	for idx := 0; idx < n; idx++ {
		if !c.Mine(idx) {
			continue
		}
		t := gen.GenTable(c.Seed, idx)
		r.Evaluations++
		data, ok := writeOrClassify(c, "GenTable", idx, t, props)
		if !ok {
			continue
		}
		viaFile := idx%10 == 3
		rd, closer, err := openTable(c, data, idx, viaFile)
		if err != nil {
			sig := "newreader-error"
			if rtx.IsPanic(err) {
				sig = "newreader-" + PanicSig(err)
			}
			r.Violate(props, sig, "NewReader failed on a writer-produced table: "+err.Error()+PanicDetail(err), mkCase(c, "GenTable", idx, t, ""))
			continue
		}
		refs, logs, err := rtx.ScanAll(rd)
		closer()
		if err != nil {
			sig := "scan-error|" + errClass(err)
			if rtx.IsPanic(err) {
				sig = "scan-" + PanicSig(err)
			}
			r.Violate(props, sig, "scan failed on a writer-produced table: "+err.Error()+PanicDetail(err), mkCase(c, "GenTable", idx, t, ""))
			continue
		}
		wantRefs, wantLogs := t.Expected()
		want := gen.Dump(wantRefs, wantLogs)
		got := gen.Dump(refs, logs)
		if want != got {
			d := gen.DiffLines(want, got)
			r.Violate(props, "readback-mismatch|"+mismatchClass(wantRefs, wantLogs, refs, logs), d, mkCase(c, "GenTable", idx, t, d))
			continue
		}
		if len(refs)+len(logs) >= 2 {
			r.Nontrivial(rep.HashBytes(data))
		}
		r.Count("records_compared", len(refs)+len(logs))
		classifyLayout(r, t, data)
		if idx%97 == 0 {
			r.Sample(map[string]interface{}{"index": idx, "cfg": t.Cfg.String(), "refs": len(refs), "logs": len(logs), "bytes": len(data), "first_lines": firstLines(got, 3)})
		}
		if idx%8 == 1 {
			flakyWriterSweep(c, idx, t)
		}
		if idx%4 == 2 && len(t.Refs)+len(t.Logs) > 0 {
			otherWriters(c, idx, t, data)
		}
	}
}

// nestingWriter runs a complete write of another table (its own Writer, its own buffer)
// inside every Write call it receives - what happens when the io.Writer handed to a
// Writer is itself backed by reftable code, or simply when a second goroutine writes a
// table while the first one is inside a slow Write.
type nestingWriter struct {
	buf   bytes.Buffer
	other *gen.Table
	calls int
}

func (n *nestingWriter) Write(b []byte) (int, error) {
	n.calls++
	if n.calls <= 8 || n.calls%16 == 0 {
		rtx.WriteTable(n.other)
	}
	return n.buf.Write(b)
}

// otherWriters: Writers are independent objects. The bytes a Writer produces for a record
// set must not depend on other Writers being active in the same process: (a) another table
// is written inside every Write call of this table's io.Writer, (b) eight goroutines write
// the table at the same time. Each result must be byte-identical to the undisturbed one
// (which the caller has already read back and compared with the records).
func otherWriters(c *Ctx, idx int, t *gen.Table, data []byte) {
	r := c.Rep
	hs := t.Cfg.HashSize()
	other := &gen.Table{Cfg: gen.Cfg{SHA256: hs == 32, BlockSize: 256}}
	other.Refs = []gen.Ref{{Name: "refs/heads/other", Kind: gen.KVal, Value: gen.IDHash(7, 1, hs), UI: 1}}
	for i := 0; i < 6; i++ {
		other.Logs = append(other.Logs, gen.Log{Name: fmt.Sprintf("refs/heads/other%d", i), UI: 1, New: gen.IDHash(7, 2+i, hs), User: "someone else", Email: "else@example.org", Time: 12345, Msg: "written by another Writer\n"})
	}
	other.Cfg.SetLimits, other.Cfg.Min, other.Cfg.Max = true, 1, 1
	cs := func(d string) tableCase { return mkCase(c, "GenTable", idx, t, d) }
	r.Evaluations++
	nw := &nestingWriter{other: other}
	err := rtx.Safe(func() error {
		cfg := rtx.Config(t.Cfg)
		w, err := reftable.NewWriter(nw, &cfg)
		if err != nil {
			return err
		}
		if err := rtx.WriteRecords(w, t); err != nil {
			return err
		}
		return w.Close()
	})
	if err != nil {
		r.Violate([]string{"C01"}, "write-fails-while-another-writer-is-active|"+errClass(err), fmt.Sprintf("writing the table failed when another Writer wrote a table inside each Write call: %v %s", err, PanicDetail(err)), cs(""))
		return
	}
	if !bytes.Equal(nw.buf.Bytes(), data) {
		r.Violate([]string{"C01"}, "table-bytes-depend-on-another-writer|nested", fmt.Sprintf("the table written while another Writer was used inside each of the %d Write calls differs from the undisturbed one (%d vs %d bytes, first difference at %d)", nw.calls, nw.buf.Len(), len(data), firstDiff(nw.buf.Bytes(), data)), cs(""))
		return
	}
	r.Count("tables_written_with_nested_writer", 1)
	if idx%16 == 2 {
		var wg sync.WaitGroup
		outs := make([][]byte, 8)
		errs := make([]error, 8)
		for g := range outs {
			wg.Add(1)
			go func(g int) {
				defer wg.Done()
				for rep := 0; rep < 3; rep++ {
					outs[g], errs[g] = rtx.WriteTable(t)
					if errs[g] != nil || !bytes.Equal(outs[g], data) {
						return
					}
				}
			}(g)
		}
		wg.Wait()
		r.Evaluations++
		for g := range outs {
			if errs[g] != nil || !bytes.Equal(outs[g], data) {
				r.Violate([]string{"C01"}, "table-bytes-depend-on-another-writer|goroutines", fmt.Sprintf("goroutine %d of 8 writing this table concurrently (each with its own Writer) got err=%v and %d bytes, the undisturbed table has %d", g, errs[g], len(outs[g]), len(data)), cs(""))
				return
			}
		}
		r.Count("tables_written_by_concurrent_writers", 1)
	}
}

func firstDiff(a, b []byte) int {
	for i := 0; i < len(a) && i < len(b); i++ {
		if a[i] != b[i] {
			return i
		}
	}
	return min(len(a), len(b))
}

// flakyWriterSweep: the same table is written through an io.Writer whose k-th Write fails
// (once, or from then on), for every k (at most 40 evenly spread k per table). A table is
// "produced without error" only if every Write succeeded: when a Write failed, some
// AddRef/AddLog/Close call must report an error - a writer that swallows the error hands
// its caller (Stack.Add, compaction) a corrupt file as good - and it must not panic.
func flakyWriterSweep(c *Ctx, idx int, t *gen.Table) {
	r := c.Rep
	count := &rtx.FlakyWriter{}
	if err := rtx.WriteTableFlaky(t, count); err != nil {
		return
	}
	step := 1 + count.Writes/40
	for k := 1; k <= count.Writes; k += step {
		for _, sticky := range []bool{false, true} {
			fw := &rtx.FlakyWriter{FailAt: k, Sticky: sticky}
			err := rtx.WriteTableFlaky(t, fw)
			r.Evaluations++
			r.Count("writer_runs_with_failing_write", 1)
			if !fw.Failed {
				continue
			}
			cs := mkCase(c, "GenTable", idx, t, fmt.Sprintf("Write #%d of %d fails (sticky=%v)", k, count.Writes, sticky))
			switch {
			case rtx.IsPanic(err):
				r.Violate([]string{"C01"}, "writer-panics-after-failed-write|"+PanicSig(err), fmt.Sprintf("Write #%d of %d failed (sticky=%v): the writer panicked: %s", k, count.Writes, sticky, PanicDetail(err)), cs)
			case err == nil:
				r.Violate([]string{"C01"}, "writer-reports-success-after-failed-write", fmt.Sprintf("Write #%d of %d to the underlying io.Writer failed (sticky=%v) but AddRef/AddLog/Close all returned nil: the table is reported as produced without error although bytes are missing", k, count.Writes, sticky), cs)
			default:
				r.Nontrivial(rep.Hash("flaky", fmt.Sprint(c.Seed), fmt.Sprint(idx), fmt.Sprint(k), fmt.Sprint(sticky)))
			}
		}
	}
}

func firstLines(s string, n int) []string {
	var out []string
	start := 0
	for i := 0; i < len(s) && len(out) < n; i++ {
		if s[i] == '\n' {
			l := s[start:i]
			if len(l) > 160 {
				l = l[:160] + "..."
			}
			out = append(out, l)
			start = i + 1
		}
	}
	return out
}

func errClass(err error) string {
	s := err.Error()
	for _, k := range []string{"unexpected EOF", "format error", "file already closed", "file does not exist", "indexed block does not exist", "zlib", "CRC"} {
		if contains(s, k) {
			return k
		}
	}
	return "other"
}

// mismatchClass names what differs, for signatures.
func mismatchClass(wr []gen.Ref, wl []gen.Log, gr []gen.Ref, gl []gen.Log) string {
	if len(wr) != len(gr) {
		return "ref-count"
	}
	for i := range wr {
		if !wr[i].Equal(&gr[i]) {
			switch {
			case wr[i].Name != gr[i].Name:
				return "ref-name"
			case wr[i].UI != gr[i].UI:
				return "ref-update-index"
			case wr[i].Kind != gr[i].Kind:
				return "ref-kind"
			}
			return "ref-payload"
		}
	}
	if len(wl) != len(gl) {
		return "log-count"
	}
	for i := range wl {
		if !wl[i].Equal(&gl[i]) {
			switch {
			case wl[i].Name != gl[i].Name || wl[i].UI != gl[i].UI:
				return "log-key"
			case wl[i].Del != gl[i].Del:
				return "log-deletion"
			case wl[i].Msg != gl[i].Msg:
				return "log-message"
			}
			return "log-field"
		}
	}
	return "?"
}

// classifyLayout records layout classes (from the independent decoder) for evidence.
func classifyLayout(r *rep.Report, t *gen.Table, data []byte) {
	info, err := dec.Layout(data)
	if err != nil {
		r.SetAdd("layout", "undecodable")
		return
	}
	sec := ""
	if info.RefBlocks > 0 {
		sec += "r"
	}
	if info.ObjBlocks > 0 {
		sec += "o"
	}
	if info.LogBlocks > 0 {
		sec += "g"
	}
	if sec == "" {
		sec = "empty"
	}
	al := "aligned"
	if t.Cfg.Unaligned {
		al = "unaligned"
	}
	r.SetAdd("layout", fmt.Sprintf("%s/%s/ridx%d/oidx%d/gidx%d", sec, al, info.RefIndexLevels, info.ObjIndexLevels, info.LogIndexLevels))
	r.SetAdd("config", fmt.Sprintf("sha256=%v bs=%d ri=%d un=%v skip=%v exact=%v", t.Cfg.SHA256, t.Cfg.BlockSize, t.Cfg.Restart, t.Cfg.Unaligned, t.Cfg.SkipIndexObjects, t.Cfg.ExactLog))
	if info.LogBlockLongerThanBlockSize {
		r.Count("log_blocks_compressed_longer_than_blocksize", 1)
	}
	r.Max("max_ref_index_levels", info.RefIndexLevels)
	r.Max("max_log_index_levels", info.LogIndexLevels)
	r.Max("max_obj_index_levels", info.ObjIndexLevels)
}

// ---- C02 ---------------------------------------------------------------------

// keyClasses returns lookup keys around k.
func keyClasses(k string) []string {
	out := []string{k, k + "\x01", k + "/"}
	n := len(k)
	if n > 0 {
		b := k[n-1]
		if b > 1 {
			out = append(out, k[:n-1]+string([]byte{b - 1})+"\xff\xff")
			out = append(out, k[:n-1]+string([]byte{b - 1}))
		}
		if b < 0xff {
			out = append(out, k[:n-1]+string([]byte{b + 1}))
		}
		if n > 1 {
			out = append(out, k[:n-1])
		}
		if n > 4 {
			out = append(out, k[:n/2])
		}
	}
	return out
}

// GenSeekTable is GenTable biased towards index-bearing tables.
func GenSeekTable(seed int64, idx int) *gen.Table {
	t := gen.GenTable(gen.Mix(seed, 0x5eec), idx)
	return t
}

// RunC02: seeking lands on the first record >= key.
func RunC02(c *Ctx) {
	r := c.Rep
	r.Rule = "case = one seek (SeekRef/SeekLog/ReadRef/ReadLogAt) on a writer-produced table, keys from every class around every record key (exact, predecessor, successor, prefix, last byte +-1, empty, beyond last); expected = suffix of the generator's own list; distinct = (table file hash, kind, key); non-trivial = the table has >= 2 blocks in the sought section or the key is not the first record; plus, per table, 400 Next calls spread over 2..4 iterators of the one Reader that are open at the same time (interleaved-iterators oracle); plus per table/view a few hundred Next calls spread over 2..4 iterators of the ONE Reader/Merged that are open at the same time and advanced in turn, new seeks issued in between (interleaved-iterators oracle: each yields what it yields alone)"
	n := c.N(400, 6000)
	props := []string{"C02"}
	for idx := 0; idx < n; idx++ {
		if !c.Mine(idx) {
			continue
		}
		t := GenSeekTable(c.Seed, idx)
		data, ok := writeOrClassify(c, "GenSeekTable", idx, t, props)
		if !ok {
			r.Evaluations++
			continue
		}
		rd, closer, err := openTable(c, data, idx, idx%10 == 7)
		if err != nil {
			r.Evaluations++
			r.Violate(props, "newreader-error", "NewReader failed on a writer-produced table: "+err.Error(), mkCase(c, "GenSeekTable", idx, t, ""))
			continue
		}
		seekTable(c, r, props, idx, t, data, rd)
		closer()
		if idx%4 == 2 {
			flakySourceSweep(c, idx, t, data)
		}
	}
}

// flakySource is a BlockSource whose FailAt-th ReadBlock fails.
type flakySource struct {
	reftable.ByteBlockSource
	failAt, reads int
	failed        bool
	eof           bool // fail with io.EOF instead of a custom error
}

var errFlakyRead = fmt.Errorf("harness: injected read error")

func (f *flakySource) ReadBlock(off uint64, size int) ([]byte, error) {
	f.reads++
	if f.failAt > 0 && f.reads == f.failAt {
		f.failed = true
		if f.eof {
			// what a file block source returns when the file was truncated after opening
			return nil, io.EOF
		}
		return nil, errFlakyRead
	}
	return f.ByteBlockSource.ReadBlock(off, size)
}

// flakySourceSweep: for every query (full ref scan, full log scan, SeekRef and SeekLog at
// up to 300 record keys) and every ReadBlock the query issues on an already opened reader,
// that one read fails (all reads of a seek; at most 40 evenly spread reads of a scan). The
// answer must be an error or exactly the answer of the undisturbed table: a read error
// never turns into a silently shorter or different result (a compaction reading its
// inputs would otherwise drop records without noticing), and the reader must not panic.
// Opening the table with each of its reads failing must fail (or give a working reader).
func flakySourceSweep(c *Ctx, idx int, t *gen.Table, data []byte) {
	r := c.Rep
	wantRefs, wantLogs := t.Expected()
	type q struct {
		kind, key string
	}
	qs := []q{{"scanrefs", ""}, {"scanlogs", ""}}
	stepR := 1 + len(wantRefs)/300
	for i := 0; i < len(wantRefs); i += stepR {
		qs = append(qs, q{"seekref", wantRefs[i].Name})
	}
	stepL := 1 + len(wantLogs)/150
	last := ""
	for i := 0; i < len(wantLogs); i += stepL {
		if wantLogs[i].Name != last {
			qs = append(qs, q{"seeklog", wantLogs[i].Name})
			last = wantLogs[i].Name
		}
	}
	runQ := func(rd *reftable.Reader, x q) (string, error) {
		var out string
		err := rtx.Safe(func() error {
			switch x.kind {
			case "scanrefs", "seekref":
				it, err := rd.SeekRef(x.key)
				if err != nil {
					return err
				}
				limit := 0
				if x.kind == "seekref" {
					limit = 3
				}
				rs, err := rtx.DrainRefs(it, limit)
				out = gen.Dump(rs, nil)
				return err
			default:
				it, err := rd.SeekLog(x.key, math.MaxUint64)
				if err != nil {
					return err
				}
				limit := 0
				if x.kind == "seeklog" {
					limit = 3
				}
				ls, err := rtx.DrainLogs(it, limit)
				out = gen.Dump(nil, ls)
				return err
			}
		})
		return out, err
	}
	open := func() (*reftable.Reader, *flakySource) {
		src := &flakySource{ByteBlockSource: reftable.ByteBlockSource{Source: data}}
		rd, err := reftable.NewReader(src, "flaky")
		if err != nil {
			return nil, nil
		}
		return rd, src
	}
	for _, x := range qs {
		rd, src := open()
		if rd == nil {
			return
		}
		src.reads = 0
		want, err := runQ(rd, x)
		if err != nil {
			return // the undisturbed table is judged by the main part of the check
		}
		nreads := src.reads
		step := 1
		if x.kind == "scanrefs" || x.kind == "scanlogs" {
			step = 1 + nreads/40
		}
		for k := 1; k <= nreads; k += step {
			rd, src := open()
			if rd == nil {
				return
			}
			src.reads, src.failAt = 0, k
			src.eof = (k+len(x.key))%2 == 1
			got, err := runQ(rd, x)
			r.Evaluations++
			r.Count("reader_queries_with_failing_read", 1)
			if !src.failed {
				continue
			}
			cs := mkCase(c, "GenSeekTable", idx, t, fmt.Sprintf("%s %q: ReadBlock #%d of %d fails", x.kind, x.key, k, nreads))
			switch {
			case err != nil && rtx.IsPanic(err):
				r.Violate([]string{"C02"}, "reader-panics-after-failed-read|"+PanicSig(err), fmt.Sprintf("%s %q with its ReadBlock #%d of %d failing panicked: %s", x.kind, x.key, k, nreads, PanicDetail(err)), cs)
				return
			case err != nil:
				r.Nontrivial(rep.Hash("flakyread", fmt.Sprint(c.Seed), fmt.Sprint(idx), x.kind, x.key, fmt.Sprint(k)))
			case got != want:
				r.Violate([]string{"C02"}, "read-error-turned-into-wrong-answer|"+x.kind, fmt.Sprintf("%s %q with its ReadBlock #%d of %d failing returned no error but a different answer than the undisturbed table: %s", x.kind, x.key, k, nreads, gen.DiffLines(want, got)), cs)
				return
			}
		}
	}
}

func seekTable(c *Ctx, r *rep.Report, props []string, idx int, t *gen.Table, data []byte, rd *reftable.Reader) {
	wantRefs, wantLogs := t.Expected()
	th := fmt.Sprintf("%x", rep.HashBytes(data))
	info, _ := dec.Layout(data)
	depthR, depthG := 0, 0
	multiR, multiG := false, false
	if info != nil {
		depthR, depthG = info.RefIndexLevels, info.LogIndexLevels
		multiR, multiG = info.RefBlocks > 1, info.LogBlocks > 1
	}
	total := len(wantRefs) + len(wantLogs)
	window := 64
	if total <= 300 {
		window = 0 // full suffix
	}
	fail := func(sig, detail string) {
		r.Violate(props, sig, detail, mkCase(c, "GenSeekTable", idx, t, detail))
	}
	// several iterators of this one Reader open at the same time, advanced in turn
	{
		irng := gen.NewRng(gen.Mix(c.Seed^0x11ea, int64(idx)))
		if sig, d, steps := interleavedCursors(irng, rd, wantRefs, wantLogs, nil, 2+irng.Intn(3), 400); sig != "" {
			fail("interleaved-iterators|"+sig, d)
			return
		} else {
			r.Count("interleaved_iterator_steps", steps)
		}
	}

	// ---- refs
	keys := map[string]bool{"": true, "\xff\xff\xff": true, "\x01": true}
	for i := range wantRefs {
		step := 1
		if len(wantRefs) > 1200 {
			step = 3 // all classes for every third key plus the block-boundary ones below
		}
		if i%step == 0 || i < 8 || i >= len(wantRefs)-24 {
			for _, k := range keyClasses(wantRefs[i].Name) {
				keys[k] = true
			}
		} else {
			keys[wantRefs[i].Name] = true
		}
	}
	klist := make([]string, 0, len(keys))
	for k := range keys {
		klist = append(klist, k)
	}
	sort.Strings(klist)
	capR, capG := 500, 160
	if c.Thorough() {
		capR, capG = 2500, 600
	}
	if len(klist) > capR {
		klist = subsample(klist, capR)
	}
	bad := 0
	for ki, k := range klist {
		if bad > 3 {
			break
		}
		r.Evaluations++
		pos := sort.Search(len(wantRefs), func(i int) bool { return wantRefs[i].Name >= k })
		w := window
		if ki%16 == 0 || pos >= len(wantRefs)-40 {
			w = 0
		}
		var got []gen.Ref
		err := rtx.Safe(func() error {
			it, err := rd.SeekRef(k)
			if err != nil {
				return err
			}
			got, err = rtx.DrainRefs(it, w)
			return err
		})
		cls := fmt.Sprintf("ref/depth%d", depthR)
		if err != nil {
			bad++
			sig := "seekref-error|" + errClass(err)
			if rtx.IsPanic(err) {
				sig = "seekref-" + PanicSig(err)
			}
			fail(sig, fmt.Sprintf("SeekRef(%q) failed: %v %s", k, err, PanicDetail(err)))
			continue
		}
		want := wantRefs[pos:]
		if w > 0 && len(want) > w {
			want = want[:w]
		}
		if d := gen.DiffLines(gen.Dump(want, nil), gen.Dump(got, nil)); d != "" {
			bad++
			fail("seekref-wrong-suffix|depth"+fmt.Sprint(min(depthR, 1)), fmt.Sprintf("SeekRef(%q) (index depth %d): %s", k, depthR, d))
			continue
		}
		r.SetAdd("seek_classes", cls)
		if multiR || pos > 0 {
			r.Nontrivial(rep.Hash(th, "r", k))
		}
		// ReadRef
		if ki%4 == 0 {
			var rr *reftable.RefRecord
			err := rtx.Safe(func() error {
				var e error
				rr, e = reftable.ReadRef(rd, k)
				return e
			})
			exact := pos < len(wantRefs) && wantRefs[pos].Name == k
			switch {
			case err != nil:
				bad++
				fail("readref-error", fmt.Sprintf("ReadRef(%q): %v", k, err))
			case exact && (rr == nil || !eqRef(rr, &wantRefs[pos])):
				bad++
				fail("readref-wrong", fmt.Sprintf("ReadRef(%q) = %v, want %s", k, rr, wantRefs[pos].Line()))
			case !exact && rr != nil:
				bad++
				fail("readref-phantom", fmt.Sprintf("ReadRef(%q) = %v, want nil", k, rr))
			}
		}
	}

	// ---- logs
	type lk struct {
		name string
		ui   uint64
	}
	lkeys := map[lk]bool{{"", math.MaxUint64}: true, {"", 0}: true, {"\xff\xff\xff", 5}: true}
	var lastName string
	for i := range wantLogs {
		l := &wantLogs[i]
		step := 1
		if len(wantLogs) > 800 {
			step = 3
		}
		full := i%step == 0 || i < 8 || i >= len(wantLogs)-16
		for _, u := range []uint64{l.UI, l.UI + 1, l.UI - 1} {
			lkeys[lk{l.Name, u}] = true
		}
		if l.Name != lastName && full {
			lastName = l.Name
			for _, k := range keyClasses(l.Name) {
				lkeys[lk{k, math.MaxUint64}] = true
				lkeys[lk{k, 0}] = true
				lkeys[lk{k, l.UI}] = true
			}
		}
	}
	ll := make([]lk, 0, len(lkeys))
	for k := range lkeys {
		ll = append(ll, k)
	}
	sort.Slice(ll, func(i, j int) bool {
		if ll[i].name != ll[j].name {
			return ll[i].name < ll[j].name
		}
		return ll[i].ui > ll[j].ui
	})
	if len(ll) > capG {
		idxs := subsampleIdx(len(ll), capG)
		nl := make([]lk, 0, len(idxs))
		for _, i := range idxs {
			nl = append(nl, ll[i])
		}
		ll = nl
	}
	bad = 0
	for ki, k := range ll {
		if bad > 3 {
			break
		}
		r.Evaluations++
		probe := gen.Log{Name: k.name, UI: k.ui}
		pos := sort.Search(len(wantLogs), func(i int) bool { return !logKeyLess(&wantLogs[i], &probe) })
		w := window
		if ki%16 == 0 || pos >= len(wantLogs)-40 {
			w = 0
		}
		var got []gen.Log
		err := rtx.Safe(func() error {
			it, err := rd.SeekLog(k.name, k.ui)
			if err != nil {
				return err
			}
			got, err = rtx.DrainLogs(it, w)
			return err
		})
		if err != nil {
			bad++
			sig := "seeklog-error|" + errClass(err)
			if rtx.IsPanic(err) {
				sig = "seeklog-" + PanicSig(err)
			}
			fail(sig, fmt.Sprintf("SeekLog(%q,%d) failed: %v %s", k.name, k.ui, err, PanicDetail(err)))
			continue
		}
		want := wantLogs[pos:]
		if w > 0 && len(want) > w {
			want = want[:w]
		}
		if d := gen.DiffLines(gen.Dump(nil, want), gen.Dump(nil, got)); d != "" {
			bad++
			fail("seeklog-wrong-suffix|depth"+fmt.Sprint(min(depthG, 1)), fmt.Sprintf("SeekLog(%q,%d) (index depth %d): %s", k.name, k.ui, depthG, d))
			continue
		}
		r.SetAdd("seek_classes", fmt.Sprintf("log/depth%d", depthG))
		if multiG || pos > 0 {
			r.Nontrivial(rep.Hash(th, "g", k.name, fmt.Sprint(k.ui)))
		}
		if ki%4 == 0 && k.name != "" {
			var lr *reftable.LogRecord
			err := rtx.Safe(func() error {
				var e error
				lr, e = reftable.ReadLogAt(rd, k.name, k.ui)
				return e
			})
			hit := pos < len(wantLogs) && wantLogs[pos].Name == k.name
			switch {
			case err != nil:
				bad++
				fail("readlogat-error", fmt.Sprintf("ReadLogAt(%q,%d): %v", k.name, k.ui, err))
			case hit && (lr == nil || !eqLog(lr, &wantLogs[pos])):
				bad++
				fail("readlogat-wrong", fmt.Sprintf("ReadLogAt(%q,%d) = %v, want %s", k.name, k.ui, lr, wantLogs[pos].Line()))
			case !hit && lr != nil:
				bad++
				fail("readlogat-phantom", fmt.Sprintf("ReadLogAt(%q,%d) = %v, want nil", k.name, k.ui, lr))
			}
		}
	}
	classifyLayout(r, t, data)
	r.Count("tables", 1)
	if idx%53 == 0 {
		r.Sample(map[string]interface{}{"index": idx, "cfg": t.Cfg.String(), "refs": len(wantRefs), "logs": len(wantLogs),
			"ref_index_levels": depthR, "log_index_levels": depthG, "ref_keys_sought": len(klist), "log_keys_sought": len(ll)})
	}
}

// logKeyLess: a's key < b's key (name asc, update index desc).
func logKeyLess(a, b *gen.Log) bool { return gen.LogLess(a, b) }

func eqRef(rr *reftable.RefRecord, w *gen.Ref) bool {
	g := rtx.FromRef(rr)
	return g.Equal(w)
}

func eqLog(lr *reftable.LogRecord, w *gen.Log) bool {
	g := rtx.FromLog(lr)
	return g.Equal(w)
}

func min(a, b int) int {
	if a < b {
		return a
	}
	return b
}

// subsampleIdx keeps the first 30 and last 60 positions and an even stride in between.
func subsampleIdx(n, cap int) []int {
	if n <= cap {
		out := make([]int, n)
		for i := range out {
			out[i] = i
		}
		return out
	}
	keep := map[int]bool{}
	for i := 0; i < 30 && i < n; i++ {
		keep[i] = true
	}
	for i := n - 60; i < n; i++ {
		if i >= 0 {
			keep[i] = true
		}
	}
	rest := cap - len(keep)
	if rest > 0 {
		for j := 0; j < rest; j++ {
			keep[30+j*(n-90)/rest] = true
		}
	}
	out := make([]int, 0, len(keep))
	for i := range keep {
		out = append(out, i)
	}
	sort.Ints(out)
	return out
}

func subsample(l []string, cap int) []string {
	idx := subsampleIdx(len(l), cap)
	out := make([]string, 0, len(idx))
	for _, i := range idx {
		out = append(out, l[i])
	}
	return out
}
