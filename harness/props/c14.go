package props

import (
	"strings"
	"fmt"

	"verif/harness/dec"
	"verif/harness/gen"
	"verif/harness/rtx"
	"verif/harness/rep"
)

// decodeCheck runs the independent decoder (full pass) on one emitted file.
// want* == nil means "no source records known" (structure only).
func decodeCheck(c *Ctx, origin string, caseInfo interface{}, data []byte, cfg *gen.Cfg, wantRefs []gen.Ref, wantLogs []gen.Log, haveWant bool) bool {
	r := c.Rep
	props := []string{"C14"}
	info, findings := dec.Decode(data, dec.Options{KnownCfg: cfg})
	if len(findings) == 0 && haveWant {
		findings = dec.CompareRecords(info, wantRefs, wantLogs)
	}
	r.Count("files_decoded", 1)
	r.SetAdd("origins", origin)
	if len(findings) > 0 {
		msg := ""
		for _, f := range findings {
			msg += f.String() + "\n"
		}
		r.Violate(props, origin+"|"+findings[0].Rule, msg, caseInfo)
		return false
	}
	if info != nil {
		r.Count("blocks_decoded", len(info.Blocks))
		r.Count("records_decoded", len(info.Refs)+len(info.Logs))
		r.Max("max_ref_index_levels", info.RefIndexLevels)
		r.Max("max_obj_index_levels", info.ObjIndexLevels)
		r.Max("max_log_index_levels", info.LogIndexLevels)
		r.SetAdd("layout", fmt.Sprintf("r%d/ri%d/o%d/oi%d/g%d/gi%d", bucket(info.RefBlocks), info.RefIndexLevels, bucket(info.ObjBlocks), info.ObjIndexLevels, bucket(info.LogBlocks), info.LogIndexLevels))
		omitted := 0
		for _, o := range info.Objs {
			if len(o.Positions) == 0 {
				omitted++
			}
		}
		if omitted > 0 {
			r.Count("obj_records_with_omitted_positions", omitted)
		}
		if len(info.Blocks) >= 2 {
			r.Nontrivial(rep.HashBytes(data))
		}
	}
	return true
}

func bucket(n int) int {
	switch {
	case n == 0:
		return 0
	case n == 1:
		return 1
	case n <= 3:
		return 3
	case n <= 20:
		return 20
	}
	return 99
}

// RunC14: every emitted table is well-formed per the format.
func RunC14(c *Ctx) {
	r := c.Rep
	r.Rule = "case = one table file emitted by the real writer (directly from generated records; through Stack.Add; by compaction) decoded by the independent decoder (header/footer/CRC, block layout and padding, restarts, key order, index levels entry by entry, object index position lists, update-index range) and compared with its source records; distinct = file hash; non-trivial = >= 2 blocks"
	r.Assumptions = []string{"the decoder's reading of the format (DESIGN.md appendix A)"}
	n := c.N(1200, 40000)
	for idx := 0; idx < n; idx++ {
		if !c.Mine(idx) {
			continue
		}
		var t *gen.Table
		genName := "GenTable"
		if idx%2 == 0 {
			t = gen.GenTable(c.Seed, idx)
		} else {
			t = GenSeekTable(c.Seed, idx)
			genName = "GenSeekTable"
		}
		r.Evaluations++
		data, ok := writeOrClassify(c, genName, idx, t, []string{"C14"})
		if !ok {
			continue
		}
		wr, wl := t.Expected()
		cfg := t.Cfg
		decodeCheck(c, "writer", mkCase(c, genName, idx, t, ""), data, &cfg, wr, wl, true)
		if idx%61 == 0 {
			info, _ := dec.Decode(data, dec.Options{})
			if info != nil {
				r.Sample(map[string]interface{}{"index": idx, "cfg": t.Cfg.String(), "bytes": len(data), "blocks": len(info.Blocks),
					"ref_index_levels": info.RefIndexLevels, "log_index_levels": info.LogIndexLevels, "obj_blocks": info.ObjBlocks, "refs": len(info.Refs), "logs": len(info.Logs)})
			}
		}
	}
	runC14Stacks(c)
	// records whose size is swept across what still fits a block: as the first record of a
	// block (a symref after a short ref that fills the rest of block 0 only partly), as a
	// later record, in the first block (which holds the file header) and in a later one
	cidx := 0
	for _, bs := range []uint32{96, 128, 200, 256, 512} {
		for _, sha := range []bool{false, true} {
			for _, unaligned := range []bool{false, true} {
				for _, shape := range []int{0, 1, 2} {
					cidx++
					if !c.Mine(cidx) {
						continue
					}
					hs := 20
					if sha {
						hs = 32
					}
					for L := int(bs) - 70; L <= int(bs)+4; L++ {
						if L < 1 {
							continue
						}
						t := &gen.Table{Cfg: gen.Cfg{BlockSize: bs, SHA256: sha, Unaligned: unaligned, SetLimits: true, Min: 1, Max: 1}}
						long := gen.Ref{Name: "refs/m", UI: 1, Kind: gen.KSym, Target: strings.Repeat("t", L)}
						switch shape {
						case 0: // long record first in a LATER block
							t.Refs = []gen.Ref{{Name: "refs/a", UI: 1, Kind: gen.KVal, Value: gen.IDHash(1, 0, hs)}, long}
						case 1: // long record first in the FIRST block, more records after it
							t.Refs = []gen.Ref{long, {Name: "refs/z", UI: 1, Kind: gen.KVal, Value: gen.IDHash(1, 0, hs)}}
						default: // three blocks, the long one in the middle, plus a log
							t.Refs = []gen.Ref{{Name: "refs/a", UI: 1, Kind: gen.KVal, Value: gen.IDHash(1, 0, hs)}, long, {Name: "refs/z", UI: 1, Kind: gen.KVal, Value: gen.IDHash(1, 1, hs)}}
							t.Logs = []gen.Log{{Name: "refs/a", UI: 1, New: gen.IDHash(1, 0, hs), User: "u", Email: "e", Time: 5, Msg: "m\n"}}
						}
						r.Evaluations++
						data, err := rtx.WriteTable(t)
						if err != nil {
							if rtx.IsPanic(err) {
								r.Violate([]string{"C14"}, "writer-"+PanicSig(err), "writer panicked: "+PanicDetail(err), mkCase(c, "capacity-sweep", cidx, t, fmt.Sprintf("L=%d", L)))
							}
							continue // too large for the block: rejected, fine
						}
						wr, wl := t.Expected()
						cfg := t.Cfg
						decodeCheck(c, "writer", mkCase(c, "capacity-sweep", cidx, t, fmt.Sprintf("record length swept: L=%d shape=%d", L, shape)), data, &cfg, wr, wl, true)
						r.Count("capacity_sweep_tables", 1)
					}
				}
			}
		}
	}
}

func decodeQuiet(data []byte) (*dec.Info, []dec.Finding) {
	return dec.Decode(data, dec.Options{})
}
