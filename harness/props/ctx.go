// Package props holds one entry point per property.
package props

import (
	"fmt"
	"os"
	"path/filepath"
	"regexp"
	"strings"

	"verif/harness/rep"
	"verif/harness/rtx"
)

type Ctx struct {
	Prop    string
	Seed    int64
	Tier    string // quick | thorough
	Shard   int
	NShards int
	Only    int // -1 = all; otherwise run just this case index
	Work    string
	Rep     *rep.Report
	Verbose bool
	// Scale multiplies case counts (for experiments); 1.0 normally
	Scale float64
}

func (c *Ctx) Thorough() bool { return c.Tier == "thorough" }

// N picks the case count for the tier.
func (c *Ctx) N(quick, thorough int) int {
	n := quick
	if c.Thorough() {
		n = thorough
	}
	if c.Scale > 0 && c.Scale != 1 {
		n = int(float64(n) * c.Scale)
		if n < 1 {
			n = 1
		}
	}
	return n
}

// Mine reports whether case idx belongs to this shard (and to --only).
func (c *Ctx) Mine(idx int) bool {
	if c.Only >= 0 {
		return idx == c.Only
	}
	return idx%c.NShards == c.Shard
}

// DiskDir is like TempDir but on the disk-backed scratch file system (ext4 here: inode
// numbers are reused quickly, unlike on tmpfs), if the driver provided one.
func (c *Ctx) DiskDir(name string) string {
	base := os.Getenv("VERIF_DISKWORK")
	if base == "" {
		return c.TempDir(name)
	}
	d := filepath.Join(base, fmt.Sprintf("%s-%d-%s", c.Prop, c.Shard, name))
	os.RemoveAll(d)
	os.MkdirAll(d, 0755)
	return d
}

func (c *Ctx) TempDir(name string) string {
	d := filepath.Join(c.Work, fmt.Sprintf("%s-%d-%s", c.Prop, c.Shard, name))
	os.RemoveAll(d)
	os.MkdirAll(d, 0755)
	return d
}

var frameRe = regexp.MustCompile(`(?m)^github\.com/google/reftable\.([^\n(]*(?:\([^)\n]*\))?[^\n(]*)\(`)
var frameRe2 = regexp.MustCompile(`(?m)^github\.com/google/reftable\.(\S+?)\(`)

// TopFrame extracts the function name of the topmost frame of the code under test
// from a panic stack (line numbers excluded).
func TopFrame(stack string) string {
	for _, line := range strings.Split(stack, "\n") {
		if strings.HasPrefix(line, "github.com/google/reftable.") && !strings.Contains(line, "verifvfs") {
			s := strings.TrimPrefix(line, "github.com/google/reftable.")
			// strip argument list
			if i := strings.LastIndex(s, "("); i > 0 {
				s = s[:i]
			}
			return s
		}
	}
	return "?"
}

// PanicClass normalises a panic value into a short class.
func PanicClass(v interface{}) string {
	s := fmt.Sprint(v)
	switch {
	case strings.Contains(s, "slice bounds out of range"):
		return "slice-bounds"
	case strings.Contains(s, "index out of range"):
		return "index-range"
	case strings.Contains(s, "nil pointer"):
		return "nil-deref"
	case strings.Contains(s, "makeslice"):
		return "makeslice"
	case strings.Contains(s, "out of memory"):
		return "oom"
	}
	// keep the first words, drop numbers/quoted data
	s = regexp.MustCompile(`[0-9]+|"[^"]*"|'[^']*'`).ReplaceAllString(s, "#")
	if len(s) > 48 {
		s = s[:48]
	}
	return strings.TrimSpace(s)
}

func PanicSig(err error) string {
	if p, ok := err.(*rtx.PanicError); ok {
		return "panic|" + TopFrame(p.Stack) + "|" + PanicClass(p.Val)
	}
	return ""
}

func PanicDetail(err error) string {
	if p, ok := err.(*rtx.PanicError); ok {
		st := p.Stack
		if len(st) > 2500 {
			st = st[:2500]
		}
		return fmt.Sprintf("%v\n%s", p.Val, st)
	}
	return ""
}

func hashBytes(b []byte) uint64 { return rep.HashBytes(b) }
