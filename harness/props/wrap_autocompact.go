//go:build have_autocompact

package props

import "github.com/google/reftable"

const haveAutoCompactSwitch = true

func setAutoCompact(st *reftable.Stack, on bool) { st.VerifSetAutoCompact(on) }
