package props

import (
	"fmt"
	"sort"

	"github.com/google/reftable"
	"verif/harness/gen"
	"verif/harness/rtx"
)

// Interleaved iterators (one goroutine): several iterators over ONE Reader / Merged are
// open at the same time and advanced one record at a time in a PRNG-chosen order, with new
// seeks (SeekRef, SeekLog, RefsFor) issued between two Next calls of the others. Every
// iterator must yield exactly what it yields when it runs alone: the suffix of the expected
// full scan at its key. The properties state what a seek followed by iteration returns,
// not that nothing else may be asked of the table in between; state kept in the reader (a
// cache of the last block, a scratch iterator, a shared buffer) shows here without any
// concurrency.

type ilCursor struct {
	what   string
	it     *reftable.Iterator
	isLog  bool
	refs   []gen.Ref
	logs   []gen.Log
	pos    int
	budget int
	done   bool
}

// interleavedCursors returns ("", "", steps) when everything agreed, else a signature
// class and a detail text. refs/logs are the expected full scan of tab.
func interleavedCursors(rng *gen.Rng, tab reftable.Table, refs []gen.Ref, logs []gen.Log, oids [][]byte, nOpen, totalSteps int) (sig, detail string, steps int) {
	open := func() (*ilCursor, string, string) {
		c := &ilCursor{budget: 3 + rng.Intn(40)}
		kind := rng.Intn(3)
		if kind == 2 && len(oids) == 0 {
			kind = rng.Intn(2)
		}
		if kind == 1 && len(logs) == 0 {
			kind = 0
		}
		var err error
		switch kind {
		case 0:
			k := ""
			if len(refs) > 0 {
				k = refs[rng.Intn(len(refs))].Name
				switch rng.Intn(6) {
				case 0:
					k = k + "\x00"
				case 1:
					if len(k) > 1 {
						k = k[:len(k)-1]
					}
				case 2:
					k = ""
				}
			}
			i := sort.Search(len(refs), func(i int) bool { return refs[i].Name >= k })
			c.refs = refs[i:]
			c.what = fmt.Sprintf("SeekRef(%q)", k)
			err = rtx.Safe(func() error { var e error; c.it, e = tab.SeekRef(k); return e })
		case 1:
			l := logs[rng.Intn(len(logs))]
			probe := gen.Log{Name: l.Name, UI: l.UI}
			switch rng.Intn(5) {
			case 0:
				probe.UI = ^uint64(0)
			case 1:
				if probe.UI > 0 {
					probe.UI--
				}
			case 2:
				probe.Name = ""
				probe.UI = ^uint64(0)
			}
			i := sort.Search(len(logs), func(i int) bool { return !gen.LogLess(&logs[i], &probe) })
			c.logs = logs[i:]
			c.isLog = true
			c.what = fmt.Sprintf("SeekLog(%q,%d)", probe.Name, probe.UI)
			err = rtx.Safe(func() error { var e error; c.it, e = tab.SeekLog(probe.Name, probe.UI); return e })
		case 2:
			oid := oids[rng.Intn(len(oids))]
			c.refs = gen.RefsFor(refs, oid)
			c.what = fmt.Sprintf("RefsFor(%x)", oid)
			err = rtx.Safe(func() error { var e error; c.it, e = tab.RefsFor(oid); return e })
		}
		if err != nil {
			cls := "error|" + errClass(err)
			if rtx.IsPanic(err) {
				cls = PanicSig(err)
			}
			return nil, cls, fmt.Sprintf("%s failed while other iterators of the same table were open: %v %s", c.what, err, PanicDetail(err))
		}
		return c, "", ""
	}
	var cur []*ilCursor
	for steps < totalSteps {
		for len(cur) < nOpen {
			c, s, d := open()
			if s != "" {
				return s, d, steps
			}
			cur = append(cur, c)
		}
		ci := rng.Intn(len(cur))
		c := cur[ci]
		steps++
		var line, want string
		var ok bool
		err := rtx.Safe(func() error {
			var e error
			if c.isLog {
				var rec reftable.LogRecord
				ok, e = c.it.NextLog(&rec)
				if ok && e == nil {
					g := rtx.FromLog(&rec)
					line = g.Line()
				}
			} else {
				var rec reftable.RefRecord
				ok, e = c.it.NextRef(&rec)
				if ok && e == nil {
					g := rtx.FromRef(&rec)
					line = g.Line()
				}
			}
			return e
		})
		others := ""
		for j, o := range cur {
			if j != ci {
				others += " " + o.what
			}
		}
		if err != nil {
			cls := "error|" + errClass(err)
			if rtx.IsPanic(err) {
				cls = PanicSig(err)
			}
			return cls, fmt.Sprintf("%s: Next #%d failed while these iterators of the same table were open and advanced in between:%s: %v %s", c.what, c.pos+1, others, err, PanicDetail(err)), steps
		}
		have := c.pos < len(c.refs)
		if c.isLog {
			have = c.pos < len(c.logs)
			if have {
				want = c.logs[c.pos].Line()
			}
		} else if have {
			want = c.refs[c.pos].Line()
		}
		if ok != have || (ok && line != want) {
			got := line
			if !ok {
				got = "<end>"
			}
			if !have {
				want = "<end>"
			}
			return "wrong-record", fmt.Sprintf("%s: record #%d is %s, want %s (the iterator runs correctly alone; open and advanced in between:%s)", c.what, c.pos+1, got, want, others), steps
		}
		c.pos++
		c.budget--
		if !ok || c.budget <= 0 {
			cur = append(cur[:ci], cur[ci+1:]...)
		}
	}
	return "", "", steps
}
