package props

import (
	"fmt"
	"math"
	"os"
	"path/filepath"
	"sort"
	"strings"

	"github.com/google/reftable"
	"verif/harness/gen"
	"verif/harness/rep"
	"verif/harness/rtx"
)

type setCase struct {
	Prop   string `json:"prop"`
	Seed   int64  `json:"seed"`
	Index  int    `json:"index"`
	Gen    string `json:"generator"`
	Note   string `json:"note"`
	View   string `json:"view"`
	Detail string `json:"detail,omitempty"`
}

// builtSet holds a written table set and the two views over it.
type builtSet struct {
	ts      *gen.TableSet
	datas   [][]byte
	readers []*reftable.Reader
	raw     *reftable.Merged
	st      *reftable.Stack
	dir     string
}

func (b *builtSet) close() {
	if b.st != nil {
		b.st.Close()
	}
	if b.dir != "" {
		os.RemoveAll(b.dir)
	}
}

// buildSet writes the tables, opens a raw merged view and a stack over hand-placed files.
func buildSet(c *Ctx, idx int, ts *gen.TableSet, props []string) (*builtSet, bool) {
	r := c.Rep
	b := &builtSet{ts: ts}
	mk := func(view, d string) setCase {
		return setCase{Prop: c.Prop, Seed: c.Seed, Index: idx, Gen: "GenTableSet", Note: ts.Note, View: view, Detail: d}
	}
	for ti, t := range ts.Tables {
		data, err := rtx.WriteTable(t)
		if err != nil {
			if rtx.IsPanic(err) {
				r.Violate(props, "writer-"+PanicSig(err), "writer panicked: "+PanicDetail(err), mk("", ""))
			} else {
				r.OutOfDomain++
				r.SetAdd("rejections", trimErr(err))
			}
			return nil, false
		}
		rd, err := rtx.OpenBytes(data, fmt.Sprintf("t%d", ti))
		if err != nil {
			r.Violate(props, "newreader-error", "NewReader failed on a writer-produced table: "+err.Error(), mk("", ""))
			return nil, false
		}
		b.datas = append(b.datas, data)
		b.readers = append(b.readers, rd)
	}
	hash := reftable.SHA1ID
	if ts.Tables[0].Cfg.SHA256 {
		hash = reftable.SHA256ID
	}
	var tabs []reftable.Table
	for _, rd := range b.readers {
		tabs = append(tabs, rd)
	}
	err := rtx.Safe(func() error {
		var e error
		b.raw, e = reftable.NewMerged(tabs, hash)
		return e
	})
	if err != nil {
		r.Violate(props, "newmerged-error|"+errClassMerged(err), "NewMerged failed on tables with increasing update-index ranges: "+err.Error()+PanicDetail(err), mk("raw", ""))
		return nil, false
	}
	// stack view over hand-placed files
	b.dir = c.TempDir(fmt.Sprintf("set%d", idx))
	var names []string
	for ti, t := range ts.Tables {
		name := fmt.Sprintf("0x%012x-0x%012x-%08x.ref", t.Cfg.Min, t.Cfg.Max, ti)
		if err := os.WriteFile(filepath.Join(b.dir, name), b.datas[ti], 0644); err != nil {
			panic(err)
		}
		names = append(names, name)
	}
	if err := os.WriteFile(filepath.Join(b.dir, "tables.list"), []byte(strings.Join(names, "\n")), 0644); err != nil {
		panic(err)
	}
	cfg := rtx.Config(ts.Tables[0].Cfg)
	err = rtx.Safe(func() error {
		var e error
		b.st, e = reftable.NewStack(b.dir, cfg)
		return e
	})
	if err != nil {
		r.Violate(props, "newstack-error|"+errClassMerged(err), "NewStack failed on a directory of writer-produced tables with increasing ranges: "+err.Error()+PanicDetail(err), mk("stack", ""))
		b.close()
		return nil, false
	}
	return b, true
}

func errClassMerged(err error) string {
	s := err.Error()
	switch {
	case rtx.IsPanic(err):
		return PanicSig(err)
	case contains(s, "hash ID"):
		return "hash-id"
	case contains(s, "indices must be increasing"):
		return "ranges"
	}
	return errClass(err)
}

// RunC03: the merged view is a newest-wins overlay in key order.
func RunC03(c *Ctx) {
	r := c.Rep
	r.Rule = "case = one scan or seek through a merged view (raw NewMerged, and Stack.Merged() over hand-placed files) of 1..6 generated tables with increasing update-index ranges over a small overlapping key alphabet (updates, deletions, re-creations, log tombstones); expected = newest-wins overlay computed from the inputs; distinct = (table set, view, kind, key); non-trivial = some key of the set occurs in >= 2 tables; plus per table/view a few hundred Next calls spread over 2..4 iterators of the ONE Reader/Merged that are open at the same time and advanced in turn, new seeks issued in between (interleaved-iterators oracle: each yields what it yields alone)"
	n := c.N(1500, 40000)
	props := []string{"C03"}
	for idx := 0; idx < n; idx++ {
		if !c.Mine(idx) {
			continue
		}
		ts := gen.GenTableSet(c.Seed, idx)
		b, ok := buildSet(c, idx, ts, props)
		if !ok {
			r.Evaluations++
			continue
		}
		shadow := shadowing(ts)
		setHash := fmt.Sprintf("%d/%d", c.Seed, idx)
		for _, view := range []string{"raw", "stack"} {
			var m *reftable.Merged
			if view == "raw" {
				m = b.raw
			} else {
				m = b.st.Merged()
			}
			wantRefs, wantLogs := gen.Overlay(ts.Tables, view == "raw")
			checkMergedView(c, r, props, idx, ts, view, m, wantRefs, wantLogs, shadow, setHash)
		}
		if idx%6 == 2 {
			mergedFailingReads(c, idx, ts, b)
		}
		if idx%6 == 4 && len(ts.Tables) >= 2 {
			nestedViews(c, idx, ts, b, shadow, setHash)
		}
		r.Count("table_sets", 1)
		r.Max("max_tables", len(ts.Tables))
		r.SetAdd("multiplicity", fmt.Sprintf("tables=%d shadow=%d", len(ts.Tables), shadow))
		if idx%211 == 0 {
			wr, wl := gen.Overlay(ts.Tables, true)
			r.Sample(map[string]interface{}{"index": idx, "note": ts.Note, "max_key_multiplicity": shadow, "overlay_refs": len(wr), "overlay_logs": len(wl)})
		}
		b.close()
	}
}

// shadowing returns the maximum number of tables in which one key occurs.
func shadowing(ts *gen.TableSet) int {
	cnt := map[string]int{}
	max := 0
	for _, t := range ts.Tables {
		for _, r := range t.Refs {
			cnt["r"+r.Name]++
			if cnt["r"+r.Name] > max {
				max = cnt["r"+r.Name]
			}
		}
		for _, l := range t.Logs {
			k := fmt.Sprintf("g%s\x00%d", l.Name, l.UI)
			cnt[k]++
			if cnt[k] > max {
				max = cnt[k]
			}
		}
	}
	return max
}

func checkMergedView(c *Ctx, r *rep.Report, props []string, idx int, ts *gen.TableSet, view string, m *reftable.Merged,
	wantRefs []gen.Ref, wantLogs []gen.Log, shadow int, setHash string) {
	mk := func(d string) setCase {
		return setCase{Prop: c.Prop, Seed: c.Seed, Index: idx, Gen: "GenTableSet", Note: ts.Note, View: view, Detail: d}
	}
	fail := func(sig, d string) { r.Violate(props, view+"|"+sig, d, mk(d)) }
	// full scan
	r.Evaluations++
	refs, logs, err := rtx.ScanAll(m)
	if err != nil {
		sig := "scan-error|" + errClass(err)
		if rtx.IsPanic(err) {
			sig = "scan-" + PanicSig(err)
		}
		fail(sig, "scan of the merged view failed: "+err.Error()+PanicDetail(err))
		return
	}
	if d := gen.DiffLines(gen.Dump(wantRefs, wantLogs), gen.Dump(refs, logs)); d != "" {
		fail("scan-mismatch|"+mismatchClass(wantRefs, wantLogs, refs, logs), d)
		return
	}
	{
		irng := gen.NewRng(gen.Mix(c.Seed^0x11eb, int64(idx)))
		if sig, d, steps := interleavedCursors(irng, m, wantRefs, wantLogs, nil, 2+irng.Intn(3), 300); sig != "" {
			fail("interleaved-iterators|"+sig, d)
			return
		} else {
			r.Count("interleaved_iterator_steps", steps)
		}
	}
	if shadow >= 2 {
		r.Nontrivial(rep.Hash(setHash, view, "scan"))
	}
	// ref seeks
	keys := map[string]bool{"": true, "\xff\xff": true}
	for _, n := range ts.Names {
		for _, k := range keyClasses(n) {
			keys[k] = true
		}
	}
	kl := make([]string, 0, len(keys))
	for k := range keys {
		kl = append(kl, k)
	}
	sort.Strings(kl)
	if len(kl) > 120 {
		kl = subsample(kl, 120)
	}
	bad := 0
	for _, k := range kl {
		if bad > 2 {
			break
		}
		r.Evaluations++
		pos := sort.Search(len(wantRefs), func(i int) bool { return wantRefs[i].Name >= k })
		var got []gen.Ref
		err := rtx.Safe(func() error {
			it, err := m.SeekRef(k)
			if err != nil {
				return err
			}
			got, err = rtx.DrainRefs(it, 0)
			return err
		})
		if err != nil {
			bad++
			sig := "seekref-error|" + errClass(err)
			if rtx.IsPanic(err) {
				sig = "seekref-" + PanicSig(err)
			}
			fail(sig, fmt.Sprintf("SeekRef(%q): %v %s", k, err, PanicDetail(err)))
			continue
		}
		if d := gen.DiffLines(gen.Dump(wantRefs[pos:], nil), gen.Dump(got, nil)); d != "" {
			bad++
			fail("seekref-mismatch", fmt.Sprintf("SeekRef(%q): %s", k, d))
			continue
		}
		if shadow >= 2 {
			r.Nontrivial(rep.Hash(setHash, view, "r", k))
		}
	}
	// log seeks
	type lk struct {
		n string
		u uint64
	}
	lks := map[lk]bool{{"", math.MaxUint64}: true, {"\xff\xff", 0}: true}
	for _, t := range ts.Tables {
		for _, l := range t.Logs {
			for _, u := range []uint64{l.UI, l.UI + 1, l.UI - 1, math.MaxUint64, 0} {
				lks[lk{l.Name, u}] = true
			}
			lks[lk{l.Name + "\x01", l.UI}] = true
			if len(l.Name) > 1 {
				lks[lk{l.Name[:len(l.Name)-1], l.UI}] = true
			}
		}
	}
	ll := make([]lk, 0, len(lks))
	for k := range lks {
		ll = append(ll, k)
	}
	sort.Slice(ll, func(i, j int) bool {
		if ll[i].n != ll[j].n {
			return ll[i].n < ll[j].n
		}
		return ll[i].u > ll[j].u
	})
	if len(ll) > 120 {
		ix := subsampleIdx(len(ll), 120)
		nl := make([]lk, 0, len(ix))
		for _, i := range ix {
			nl = append(nl, ll[i])
		}
		ll = nl
	}
	bad = 0
	for _, k := range ll {
		if bad > 2 {
			break
		}
		r.Evaluations++
		probe := gen.Log{Name: k.n, UI: k.u}
		pos := sort.Search(len(wantLogs), func(i int) bool { return !gen.LogLess(&wantLogs[i], &probe) })
		var got []gen.Log
		err := rtx.Safe(func() error {
			it, err := m.SeekLog(k.n, k.u)
			if err != nil {
				return err
			}
			got, err = rtx.DrainLogs(it, 0)
			return err
		})
		if err != nil {
			bad++
			sig := "seeklog-error|" + errClass(err)
			if rtx.IsPanic(err) {
				sig = "seeklog-" + PanicSig(err)
			}
			fail(sig, fmt.Sprintf("SeekLog(%q,%d): %v %s", k.n, k.u, err, PanicDetail(err)))
			continue
		}
		if d := gen.DiffLines(gen.Dump(nil, wantLogs[pos:]), gen.Dump(nil, got)); d != "" {
			bad++
			fail("seeklog-mismatch", fmt.Sprintf("SeekLog(%q,%d): %s", k.n, k.u, d))
			continue
		}
		if shadow >= 2 {
			r.Nontrivial(rep.Hash(setHash, view, "g", k.n, fmt.Sprint(k.u)))
		}
	}
}

// ---- C11 ---------------------------------------------------------------------

// GenOidTable generates a table whose object ids come from a small pool so that one id
// occurs in many refs and blocks.
func GenOidTable(seed int64, idx int) *gen.Table {
	r := gen.NewRng(gen.Mix(seed^0x0b1d, int64(idx)))
	t := &gen.Table{}
	c := &t.Cfg
	c.SHA256 = idx%2 == 1
	c.SkipIndexObjects = idx%5 == 4
	c.Unaligned = (idx/2)%3 == 1
	c.Restart = []int{0, 1, 3, 16}[r.Intn(4)]
	hs := c.HashSize()
	c.BlockSize = []uint32{128, 160, 200, 256, 256, 512, 1024, 0}[r.Intn(8)]
	if c.SHA256 && c.BlockSize != 0 && c.BlockSize < 220 {
		c.BlockSize = 256
	}
	switch r.Intn(4) {
	case 0:
		c.SetLimits, c.Min, c.Max = true, 0, 0
	case 1:
		c.SetLimits, c.Min, c.Max = true, 5, 5
	case 2:
		c.SetLimits, c.Min, c.Max = true, 1000, 1100
	default:
		c.SetLimits, c.Min, c.Max = true, 1<<40, 1<<40+7
	}
	n := []int{3, 30, 150, 600, 2500}[r.Intn(5)]
	poolN := []int{1, 2, 5, 20, 200}[r.Intn(5)]
	style := gen.NameStyle(r.Intn(5))
	if idx%9 == 7 {
		// ref blocks less than 128 bytes apart (unaligned, tiny blocks) and one or two hot
		// ids referenced from hundreds of them: position lists with one-byte deltas that
		// still fit an obj block, and lists that do not
		c.SHA256, hs = false, 20
		c.Unaligned, c.SkipIndexObjects = true, false
		c.BlockSize = []uint32{96, 128, 160}[r.Intn(3)]
		n = 300 + r.Intn(500)
		poolN = 1 + r.Intn(2)
		style = gen.NamesNumbered
	}
	pool := r.NewPool(hs, poolN)
	names := r.Names(n, style)
	delP := []float64{0, 0.1}[r.Intn(2)]
	for _, nm := range names {
		ref := r.GenRef(nm, c.Min+uint64(r.Intn(int(c.Max-c.Min)+1)), hs, pool, delP)
		if ref.Kind == gen.KSym && len(ref.Target) > 40 {
			ref.Target = ref.Target[:40]
		}
		t.Refs = append(t.Refs, ref)
	}
	if r.Chance(0.3) {
		for i, nm := range names {
			if i%7 == 0 {
				t.Logs = append(t.Logs, r.GenLog(nm, c.Min, hs, pool, false))
			}
		}
		gen.SortLogs(t.Logs)
	}
	need := 0
	for i := range t.Refs {
		if s := 16 + len(t.Refs[i].Name) + 2*hs + len(t.Refs[i].Target); s > need {
			need = s
		}
	}
	for i := range t.Logs {
		if s := 40 + len(t.Logs[i].Name) + 2*hs + len(t.Logs[i].User) + len(t.Logs[i].Email) + len(t.Logs[i].Msg); s > need {
			need = s
		}
	}
	need += 28 + 4 + 5 + 8
	if c.EffBlockSize() < need {
		c.BlockSize = uint32(need + 16)
	}
	t.Note = fmt.Sprintf("idx=%d refs=%d pool=%d", idx, len(t.Refs), poolN)
	return t
}

func oidsOf(refs []gen.Ref, hs int, r *gen.Rng) [][]byte {
	set := map[string]bool{}
	for _, x := range refs {
		if x.Value != nil {
			set[string(x.Value)] = true
		}
		if x.Peeled != nil {
			set[string(x.Peeled)] = true
		}
	}
	var out [][]byte
	for k := range set {
		out = append(out, []byte(k))
	}
	sort.Slice(out, func(i, j int) bool { return string(out[i]) < string(out[j]) })
	if len(out) > 40 {
		r.Shuffle(len(out), func(i, j int) { out[i], out[j] = out[j], out[i] })
		out = out[:40]
	}
	// absent ids: all-zero, all-ff, random, and neighbours of present ones
	out = append(out, make([]byte, hs))
	ff := make([]byte, hs)
	for i := range ff {
		ff[i] = 0xff
	}
	out = append(out, ff, r.Bytes(hs), r.Bytes(hs))
	if len(out) > 4 {
		nb := append([]byte(nil), out[0]...)
		nb[hs-1] ^= 1
		out = append(out, nb)
		nb2 := append([]byte(nil), out[0]...)
		nb2[0] ^= 0x80
		out = append(out, nb2)
	}
	return out
}

func checkRefsFor(c *Ctx, r *rep.Report, props []string, what string, tab reftable.Table, all []gen.Ref, oid []byte, mkc func(string) interface{}) bool {
	r.Evaluations++
	want := gen.RefsFor(all, oid)
	var got []gen.Ref
	err := rtx.Safe(func() error {
		it, err := tab.RefsFor(oid)
		if err != nil {
			return err
		}
		got, err = rtx.DrainRefs(it, 0)
		return err
	})
	if err != nil {
		sig := what + "|refsfor-error|" + errClass(err)
		if rtx.IsPanic(err) {
			sig = what + "|refsfor-" + PanicSig(err)
		}
		d := fmt.Sprintf("RefsFor(%x): %v %s", oid, err, PanicDetail(err))
		r.Violate(props, sig, d, mkc(d))
		return false
	}
	if d := gen.DiffLines(gen.Dump(want, nil), gen.Dump(got, nil)); d != "" {
		cls := "wrong-set"
		if len(want) == len(got) {
			cls = mismatchClass(want, nil, got, nil)
		} else if len(got) > len(want) {
			cls = "extra-results"
		} else {
			cls = "missing-results"
		}
		d = fmt.Sprintf("RefsFor(%x): %s", oid, d)
		r.Violate(props, what+"|refsfor-mismatch|"+cls, d, mkc(d))
		return false
	}
	r.Count("refsfor_results", len(got))
	return true
}

// RunC11: RefsFor returns exactly the live refs pointing at an object.
func RunC11(c *Ctx) {
	r := c.Rep
	r.Rule = "case = one RefsFor(oid) call on (a) a writer-produced table with pooled object ids (object index present / skipped / position lists omitted, min update index > 0), (b) a raw merged view and (c) a stack view over generated table sets; oids = every occurring id (<= 40 per table) plus absent ids; expected = filter of the generator's list / of the overlay, with absolute update indices; distinct = (table or set, view, oid); non-trivial = the expected result is non-empty or the table has an object section; plus per table/view a few hundred Next calls spread over 2..4 iterators of the ONE Reader/Merged that are open at the same time and advanced in turn, new seeks issued in between (interleaved-iterators oracle: each yields what it yields alone)"
	props := []string{"C11"}
	n := c.N(600, 20000)
	for idx := 0; idx < n; idx++ {
		if !c.Mine(idx) {
			continue
		}
		t := GenOidTable(c.Seed, idx)
		data, ok := writeOrClassify(c, "GenOidTable", idx, t, props)
		if !ok {
			r.Evaluations++
			continue
		}
		rd, closer, err := openTable(c, data, idx, idx%10 == 1)
		if err != nil {
			r.Violate(props, "newreader-error", err.Error(), mkCase(c, "GenOidTable", idx, t, ""))
			continue
		}
		wantRefs, _ := t.Expected()
		rr := gen.NewRng(gen.Mix(c.Seed, int64(idx)+77))
		th := fmt.Sprintf("%x", rep.HashBytes(data))
		info := layoutOf(data)
		toids := oidsOf(wantRefs, t.Cfg.HashSize(), rr)
		if sig, d, steps := interleavedCursors(rr, rd, wantRefs, nil, toids, 2+rr.Intn(3), 300); sig != "" {
			r.Violate(props, "table|interleaved-iterators|"+sig, d, mkCase(c, "GenOidTable", idx, t, d))
			closer()
			continue
		} else {
			r.Count("interleaved_iterator_steps", steps)
		}
		for _, oid := range toids {
			okc := checkRefsFor(c, r, props, "table", rd, wantRefs, oid, func(d string) interface{} { return mkCase(c, "GenOidTable", idx, t, d) })
			if !okc {
				break
			}
			if len(gen.RefsFor(wantRefs, oid)) > 0 || info.objBlocks > 0 {
				r.Nontrivial(rep.Hash(th, string(oid)))
			}
		}
		r.SetAdd("objindex", fmt.Sprintf("objblocks=%d objidx=%d omitted=%v skip=%v min>0=%v", bucket(info.objBlocks), info.objIdx, info.omitted > 0, t.Cfg.SkipIndexObjects, t.Cfg.Min > 0))
		r.Count("tables", 1)
		if info.omitted > 0 {
			r.Count("tables_with_omitted_position_lists", 1)
		}
		if idx%101 == 0 {
			r.Sample(map[string]interface{}{"index": idx, "cfg": t.Cfg.String(), "note": t.Note, "obj_blocks": info.objBlocks, "omitted_lists": info.omitted})
		}
		closer()
	}
	// merged / stack
	n2 := c.N(400, 15000)
	for idx := 0; idx < n2; idx++ {
		if !c.Mine(idx) {
			continue
		}
		ts := gen.GenTableSet(c.Seed^0xc11, idx)
		b, ok := buildSet(c, idx, ts, props)
		if !ok {
			r.Evaluations++
			continue
		}
		rr := gen.NewRng(gen.Mix(c.Seed, int64(idx)+99))
		// candidate oids: from every table (also ids that were overwritten)
		var allRefs []gen.Ref
		for _, t := range ts.Tables {
			allRefs = append(allRefs, t.Refs...)
		}
		oids := oidsOf(allRefs, ts.Tables[0].Cfg.HashSize(), rr)
		for _, view := range []string{"raw", "stack"} {
			var m *reftable.Merged
			if view == "raw" {
				m = b.raw
			} else {
				m = b.st.Merged()
			}
			// RefsFor never returns deletions in either view
			live, _ := gen.Overlay(ts.Tables, false)
			if len(oids) > 0 {
				vrefs, _ := gen.Overlay(ts.Tables, view == "raw")
				if sig, d, steps := interleavedCursors(rr, m, vrefs, nil, oids, 2+rr.Intn(3), 200); sig != "" {
					r.Violate(props, view+"|interleaved-iterators|"+sig, d, setCase{Prop: c.Prop, Seed: c.Seed, Index: idx, Gen: "GenTableSet^0xc11", Note: ts.Note, View: view, Detail: d})
					break
				} else {
					r.Count("interleaved_iterator_steps", steps)
				}
			}
			for _, oid := range oids {
				okc := checkRefsFor(c, r, props, view, m, live, oid, func(d string) interface{} {
					return setCase{Prop: c.Prop, Seed: c.Seed, Index: idx, Gen: "GenTableSet^0xc11", Note: ts.Note, View: view, Detail: d}
				})
				if !okc {
					break
				}
				if len(ts.Tables) > 1 {
					r.Nontrivial(rep.Hash("set", fmt.Sprint(idx), view, string(oid)))
				}
			}
		}
		r.Count("table_sets", 1)
		b.close()
	}
}

type layoutInfo struct {
	objBlocks, objIdx, omitted int
}

func layoutOf(data []byte) layoutInfo {
	var li layoutInfo
	info, _ := decodeQuiet(data)
	if info == nil {
		return li
	}
	li.objBlocks = info.ObjBlocks
	li.objIdx = info.ObjIndexLevels
	for _, o := range info.Objs {
		if len(o.Positions) == 0 {
			li.omitted++
		}
	}
	return li
}

// countingSource is a block source whose reads are counted on a counter shared by all tables
// of a set; the read with number *failAt fails.
type countingSource struct {
	reftable.ByteBlockSource
	n, failAt *int
	failed    *bool
}

func (f *countingSource) ReadBlock(off uint64, size int) ([]byte, error) {
	*f.n++
	if *f.failAt > 0 && *f.n == *f.failAt {
		*f.failed = true
		return nil, errFlakyRead
	}
	return f.ByteBlockSource.ReadBlock(off, size)
}

// mergedFailingReads: a full ref scan and a full log scan through the raw merged view while
// one block read of one of the tables fails - every read in turn (every second / third one
// for long scans). The scan must report an error or return exactly the undisturbed result:
// a sub-iterator that fails while it is being advanced (also past a shadowed duplicate) must
// not silently drop the rest of its table. Compaction reads its inputs through this view.
func mergedFailingReads(c *Ctx, idx int, ts *gen.TableSet, b *builtSet) {
	r := c.Rep
	hash := reftable.SHA1ID
	if ts.Tables[0].Cfg.SHA256 {
		hash = reftable.SHA256ID
	}
	open := func() (m *reftable.Merged, n, failAt *int, failed *bool) {
		n, failAt, failed = new(int), new(int), new(bool)
		var tabs []reftable.Table
		for ti, d := range b.datas {
			rd, err := reftable.NewReader(&countingSource{ByteBlockSource: reftable.ByteBlockSource{Source: d}, n: n, failAt: failAt, failed: failed}, fmt.Sprintf("t%d", ti))
			if err != nil {
				return nil, nil, nil, nil
			}
			tabs = append(tabs, rd)
		}
		m, err := reftable.NewMerged(tabs, hash)
		if err != nil {
			return nil, nil, nil, nil
		}
		*n = 0
		return m, n, failAt, failed
	}
	for _, kind := range []string{"refs", "logs"} {
		scan := func(m *reftable.Merged) (string, error) {
			var out string
			err := rtx.Safe(func() error {
				if kind == "refs" {
					it, err := m.SeekRef("")
					if err != nil {
						return err
					}
					rs, err := rtx.DrainRefs(it, 0)
					out = gen.Dump(rs, nil)
					return err
				}
				it, err := m.SeekLog("", math.MaxUint64)
				if err != nil {
					return err
				}
				ls, err := rtx.DrainLogs(it, 0)
				out = gen.Dump(nil, ls)
				return err
			})
			return out, err
		}
		m, n, _, _ := open()
		if m == nil {
			return
		}
		want, err := scan(m)
		if err != nil {
			return
		}
		total := *n
		step := 1 + total/150
		for k := 1; k <= total; k += step {
			m, _, failAt, failed := open()
			if m == nil {
				return
			}
			*failAt = k
			got, err := scan(m)
			r.Evaluations++
			r.Count("merged_scans_with_failing_read", 1)
			if !*failed {
				continue
			}
			cs := setCase{Prop: c.Prop, Seed: c.Seed, Index: idx, Gen: "GenTableSet", Note: ts.Note, View: "raw", Detail: fmt.Sprintf("%s scan, block read #%d of %d fails", kind, k, total)}
			switch {
			case err != nil && rtx.IsPanic(err):
				r.Violate([]string{"C03"}, "merged-scan-panics-after-failed-read|"+PanicSig(err), fmt.Sprintf("%s scan of the merged view with block read #%d of %d failing panicked: %s", kind, k, total, PanicDetail(err)), cs)
				return
			case err == nil && got != want:
				r.Violate([]string{"C03"}, "read-error-turned-into-wrong-merged-result|"+kind, fmt.Sprintf("%s scan of the merged view with block read #%d of %d failing returned no error but a different result: %s", kind, k, total, gen.DiffLines(want, got)), cs)
				return
			case err != nil:
				r.Nontrivial(rep.Hash("mfr", fmt.Sprint(c.Seed), fmt.Sprint(idx), kind, fmt.Sprint(k)))
			}
		}
	}
}

// nestedViews: a Merged is a Table, so views nest. (a) a raw view over [raw view of the
// first j tables, the remaining tables] must equal the flat raw overlay; (b) a raw view over
// [the STACK view of the first j tables, the remaining tables]: the inner view hides its
// deletion records and what they delete, the outer one merges what is left with the newer
// tables and shows their deletion records.
func nestedViews(c *Ctx, idx int, ts *gen.TableSet, b *builtSet, shadow int, setHash string) {
	r := c.Rep
	hash := reftable.SHA1ID
	if ts.Tables[0].Cfg.SHA256 {
		hash = reftable.SHA256ID
	}
	j := 1 + idx/6%(len(ts.Tables)-1)
	var rest []reftable.Table
	for _, rd := range b.readers[j:] {
		rest = append(rest, rd)
	}
	var innerTabs []reftable.Table
	for _, rd := range b.readers[:j] {
		innerTabs = append(innerTabs, rd)
	}
	mk := func(view, d string) setCase {
		return setCase{Prop: c.Prop, Seed: c.Seed, Index: idx, Gen: "GenTableSet", Note: ts.Note, View: view, Detail: d}
	}
	// (a)
	var outer *reftable.Merged
	err := rtx.Safe(func() error {
		inner, err := reftable.NewMerged(innerTabs, hash)
		if err != nil {
			return err
		}
		outer, err = reftable.NewMerged(append([]reftable.Table{inner}, rest...), hash)
		return err
	})
	if err != nil {
		r.Violate([]string{"C03"}, "nested-raw|newmerged-error", "NewMerged over a raw merged view and newer tables failed: "+err.Error()+PanicDetail(err), mk("nested-raw", ""))
		return
	}
	wr, wl := gen.Overlay(ts.Tables, true)
	checkMergedView(c, r, []string{"C03"}, idx, ts, "nested-raw", outer, wr, wl, shadow, setHash)
	// (b) stack over the first j tables
	dir := c.TempDir(fmt.Sprintf("nest%d", idx))
	defer os.RemoveAll(dir)
	var names []string
	for ti := 0; ti < j; ti++ {
		t := ts.Tables[ti]
		name := fmt.Sprintf("0x%012x-0x%012x-%08x.ref", t.Cfg.Min, t.Cfg.Max, ti)
		if err := os.WriteFile(filepath.Join(dir, name), b.datas[ti], 0644); err != nil {
			panic(err)
		}
		names = append(names, name)
	}
	if err := os.WriteFile(filepath.Join(dir, "tables.list"), []byte(strings.Join(names, "\n")), 0644); err != nil {
		panic(err)
	}
	var st *reftable.Stack
	err = rtx.Safe(func() error {
		var e error
		st, e = reftable.NewStack(dir, rtx.Config(ts.Tables[0].Cfg))
		return e
	})
	if err != nil {
		return // the full-set stack view is judged elsewhere
	}
	defer st.Close()
	err = rtx.Safe(func() error {
		var e error
		outer, e = reftable.NewMerged(append([]reftable.Table{st.Merged()}, rest...), hash)
		return e
	})
	if err != nil {
		r.Violate([]string{"C03"}, "nested-stack|newmerged-error", "NewMerged over a stack view and newer tables failed: "+err.Error()+PanicDetail(err), mk("nested-stack", ""))
		return
	}
	ir, il := gen.Overlay(ts.Tables[:j], false)
	pseudo := &gen.Table{Cfg: ts.Tables[0].Cfg, Refs: ir, Logs: il}
	pseudo.Cfg.ExactLog = true // already normalised
	wr, wl = gen.Overlay(append([]*gen.Table{pseudo}, ts.Tables[j:]...), true)
	checkMergedView(c, r, []string{"C03"}, idx, ts, "nested-stack", outer, wr, wl, shadow, setHash)
	r.Count("nested_view_sets", 1)
}
