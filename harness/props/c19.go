package props

import (
	"fmt"
	"math"
	"os"
	"path/filepath"
	"strings"
	"sync"

	"github.com/google/reftable"
	"verif/harness/gen"
	"verif/harness/rep"
	"verif/harness/rtx"
)

type query struct {
	kind string // scanrefs scanlogs seekref seeklog refsfor readref
	key  string
	ui   uint64
	oid  []byte
	want string
}

func runQuery(tab reftable.Table, q *query) (string, error) {
	var out string
	err := rtx.Safe(func() error {
		switch q.kind {
		case "scanrefs":
			it, err := tab.SeekRef("")
			if err != nil {
				return err
			}
			rs, err := rtx.DrainRefs(it, 0)
			out = gen.Dump(rs, nil)
			return err
		case "scanlogs":
			it, err := tab.SeekLog("", math.MaxUint64)
			if err != nil {
				return err
			}
			ls, err := rtx.DrainLogs(it, 0)
			out = gen.Dump(nil, ls)
			return err
		case "seekref":
			it, err := tab.SeekRef(q.key)
			if err != nil {
				return err
			}
			rs, err := rtx.DrainRefs(it, 12)
			out = gen.Dump(rs, nil)
			return err
		case "seeklog":
			it, err := tab.SeekLog(q.key, q.ui)
			if err != nil {
				return err
			}
			ls, err := rtx.DrainLogs(it, 12)
			out = gen.Dump(nil, ls)
			return err
		case "refsfor":
			it, err := tab.RefsFor(q.oid)
			if err != nil {
				return err
			}
			rs, err := rtx.DrainRefs(it, 0)
			out = gen.Dump(rs, nil)
			return err
		case "readref":
			r, err := reftable.ReadRef(tab, q.key)
			if err != nil {
				return err
			}
			if r != nil {
				g := rtx.FromRef(r)
				out = g.Line()
			}
			return nil
		}
		return nil
	})
	return out, err
}

func buildQueries(rng *gen.Rng, names []string, oids [][]byte) []*query {
	qs := []*query{{kind: "scanrefs"}, {kind: "scanlogs"}}
	for _, n := range names {
		qs = append(qs, &query{kind: "seekref", key: n}, &query{kind: "readref", key: n}, &query{kind: "seeklog", key: n, ui: math.MaxUint64},
			&query{kind: "seekref", key: n + "\x01"}, &query{kind: "seeklog", key: n, ui: uint64(rng.Intn(50))})
	}
	for _, o := range oids {
		qs = append(qs, &query{kind: "refsfor", oid: o})
	}
	return qs
}

// hammer runs the queries concurrently against shared table objects. The expected
// answers come from `ref`, a separately constructed object over the same bytes, so that
// every shared object is COLD (never queried) when the goroutines - released together by
// a barrier - first touch it: lazily initialised state is built under concurrency.
// mk() is called `fresh` times; each object gets goroutines x opsPer queries.
func hammer(c *Ctx, label string, ref reftable.Table, mk func() (reftable.Table, func()), fresh int, qs []*query, goroutines, opsPer int, seed int64, caseInfo map[string]interface{}) {
	r := c.Rep
	for _, q := range qs {
		w, err := runQuery(ref, q)
		if err != nil {
			r.Violate([]string{"C19", "C02"}, label+"|sequential-query-failed", fmt.Sprintf("%s %q failed sequentially: %v", q.kind, q.key, err), caseInfo)
			return
		}
		q.want = w
	}
	var mu sync.Mutex
	var firstBad string
	bad := 0
	for f := 0; f < fresh; f++ {
		tab, done := mk()
		if tab == nil {
			r.Note("%s: could not build a fresh shared object", label)
			return
		}
		var wg sync.WaitGroup
		start := make(chan struct{})
		for g := 0; g < goroutines; g++ {
			wg.Add(1)
			go func(g int) {
				defer wg.Done()
				rng := gen.NewRng(gen.Mix(seed, int64(g)+int64(f)*1000))
				<-start
				for i := 0; i < opsPer; i++ {
					q := qs[rng.Intn(len(qs))]
					got, err := runQuery(tab, q)
					if err != nil || got != q.want {
						mu.Lock()
						bad++
						if firstBad == "" {
							if err != nil {
								firstBad = fmt.Sprintf("goroutine %d (query %d on fresh object %d): %s %q failed under concurrency: %v %s", g, i, f, q.kind, q.key, err, PanicDetail(err))
							} else {
								firstBad = fmt.Sprintf("goroutine %d (query %d on fresh object %d): %s %q returned a different result than sequentially: %s", g, i, f, q.kind, q.key, gen.DiffLines(q.want, got))
							}
						}
						mu.Unlock()
						return
					}
				}
			}(g)
		}
		close(start)
		wg.Wait()
		if done != nil {
			done()
		}
		r.Evaluations += goroutines * opsPer
		r.Count("concurrent_queries", goroutines*opsPer)
		r.Count("cold_shared_objects", 1)
	}
	r.SetAdd("shared_objects", label)
	if bad > 0 {
		r.Violate([]string{"C19"}, label+"|concurrent-result-differs", firstBad, caseInfo)
	}
}

// RunC19: readers and merged views can be shared by concurrent goroutines.
func RunC19(c *Ctx) {
	r := c.Rep
	r.Rule = "case = one round: 16..32 goroutines run a PRNG-chosen mix of full scans, seeks, ReadRef and RefsFor on ONE shared Reader (memory-backed and file-backed) and ONE shared Merged (raw NewMerged and Stack.Merged()) built with -race; every result is compared with the answer computed sequentially on a SEPARATE object over the same bytes, so each shared object (4 fresh ones per kind and round) is cold when the goroutines, released together, first query it; and the race detector's log is parsed by the driver (any report with a reftable frame is a violation). distinct = (round, shared object kind, table); non-trivial = at least 16 goroutines issued overlapping queries on the shared object"
	r.Assumptions = []string{"the race detector only sees interleavings that actually occur; rounds are repeated"}
	rounds := c.N(8, 200)
	for round := 0; round < rounds; round++ {
		if !c.Mine(round) {
			continue
		}
		rng := gen.NewRng(gen.Mix(c.Seed^0xc19, int64(round)))
		goroutines := 16 + rng.Intn(17)
		// every shared object is queried cold; `fresh` objects per kind and round
		ops := 20
		fresh := 4
		// a single table with refs, logs and an object index
		var t *gen.Table
		for i := 0; ; i++ {
			t = GenOidTable(c.Seed^0xc19, round*50+i)
			if len(t.Refs) >= 100 && len(t.Refs) <= 800 {
				break
			}
		}
		data, err := rtx.WriteTable(t)
		if err != nil {
			r.OutOfDomain++
			continue
		}
		var names []string
		for i, ref := range t.Refs {
			if i%(1+len(t.Refs)/10) == 0 {
				names = append(names, ref.Name)
			}
		}
		wantRefs, _ := t.Expected()
		oids := oidsOf(wantRefs, t.Cfg.HashSize(), rng)
		if len(oids) > 8 {
			oids = oids[:8]
		}
		info := map[string]interface{}{"prop": "C19", "seed": c.Seed, "index": round, "cfg": t.Cfg.String(), "goroutines": goroutines}
		qs := buildQueries(rng, names, oids)
		// memory-backed reader
		rd, err := rtx.OpenBytes(data, "shared")
		if err == nil {
			hammer(c, "Reader(memory)", rd, func() (reftable.Table, func()) {
				x, err := rtx.OpenBytes(data, "shared")
				if err != nil {
					return nil, nil
				}
				return x, nil
			}, fresh, qs, goroutines, ops, gen.Mix(c.Seed, int64(round)), info)
			r.Nontrivial(rep.Hash("c19", fmt.Sprint(c.Seed), fmt.Sprint(round), "mem"))
		}
		// file-backed reader
		fn := filepath.Join(c.Work, fmt.Sprintf("c19-%d-%d.ref", c.Shard, round))
		os.WriteFile(fn, data, 0644)
		bs, err := reftable.NewFileBlockSource(fn)
		if err == nil {
			frd, err := reftable.NewReader(bs, "sharedfile")
			if err == nil {
				hammer(c, "Reader(file)", frd, func() (reftable.Table, func()) {
					bs, err := reftable.NewFileBlockSource(fn)
					if err != nil {
						return nil, nil
					}
					x, err := reftable.NewReader(bs, "sharedfile")
					if err != nil {
						bs.Close()
						return nil, nil
					}
					return x, func() { x.Close() }
				}, fresh, buildQueries(rng, names, oids), goroutines, ops, gen.Mix(c.Seed, int64(round)+1), info)
				r.Nontrivial(rep.Hash("c19", fmt.Sprint(c.Seed), fmt.Sprint(round), "file"))
				frd.Close()
			}
		}
		os.Remove(fn)
		// merged views
		ts := gen.GenTableSet(c.Seed^0xc19, round)
		b, ok := buildSet(c, round, ts, []string{"C19"})
		if ok {
			var allRefs []gen.Ref
			for _, tt := range ts.Tables {
				allRefs = append(allRefs, tt.Refs...)
			}
			moids := oidsOf(allRefs, ts.Tables[0].Cfg.HashSize(), rng)
			if len(moids) > 8 {
				moids = moids[:8]
			}
			mnames := ts.Names
			if len(mnames) > 12 {
				mnames = mnames[:12]
			}
			minfo := map[string]interface{}{"prop": "C19", "seed": c.Seed, "index": round, "set": ts.Note, "goroutines": goroutines}
			hash := reftable.SHA1ID
			if ts.Tables[0].Cfg.SHA256 {
				hash = reftable.SHA256ID
			}
			hammer(c, "Merged(raw)", b.raw, func() (reftable.Table, func()) {
				var tabs []reftable.Table
				for ti, d := range b.datas {
					x, err := rtx.OpenBytes(d, fmt.Sprintf("t%d", ti))
					if err != nil {
						return nil, nil
					}
					tabs = append(tabs, x)
				}
				m, err := reftable.NewMerged(tabs, hash)
				if err != nil {
					return nil, nil
				}
				return m, nil
			}, fresh, buildQueries(rng, mnames, moids), goroutines, ops, gen.Mix(c.Seed, int64(round)+2), minfo)
			scfg := rtx.Config(ts.Tables[0].Cfg)
			hammer(c, "Merged(stack view, file-backed)", b.st.Merged(), func() (reftable.Table, func()) {
				st, err := reftable.NewStack(b.dir, scfg)
				if err != nil {
					return nil, nil
				}
				return st.Merged(), func() { st.Close() }
			}, fresh, buildQueries(rng, mnames, moids), goroutines, ops, gen.Mix(c.Seed, int64(round)+3), minfo)
			r.Nontrivial(rep.Hash("c19", fmt.Sprint(c.Seed), fmt.Sprint(round), "merged"))
			b.close()
		}
		r.Count("rounds", 1)
		if round%7 == 0 {
			r.Sample(map[string]interface{}{"round": round, "goroutines": goroutines, "queries_per_goroutine": ops, "table": t.Cfg.String(), "refs": len(t.Refs), "merged_set": ts.Note})
		}
	}
}

var _ = strings.Join
