package props

import (
	"fmt"
	"os"
	"strings"

	"github.com/google/reftable"
	"verif/harness/gen"
	"verif/harness/rep"
	"verif/harness/rtx"
	"verif/harness/stx"
)

// runCapacityWindow: records whose encoded size lies just below what one block can hold.
//
// A record that was accepted by Add (it sat in a block that does not start the file) may
// become the FIRST record of the table a compaction writes - all smaller keys were deleted
// and the range includes the bottom table, so their tombstones are dropped - and the first
// block of a file also holds the 24/28-byte file header. The family sweeps the record
// length across the last 48 bytes below the largest length Add accepts, for a log entry
// (its ref is deleted afterwards: the compacted table has no ref section) and for a ref
// (the ref sorting before it is deleted afterwards).
//
// Monitors: the compaction (explicit, or the automatic one inside Add) must not fail, and
// the handle's and a fresh handle's scans must equal the model before and after
// (C07: nothing a reader can observe changes; C04: the only failures are contention and
// rejection of the transaction's own content).
func runCapacityWindow(c *Ctx, idx int) {
	r := c.Rep
	kinds := []string{"log", "ref"}
	bss := []uint32{256, 512, 1024}
	kind := kinds[idx%2]
	bs := bss[(idx/2)%3]
	sha256 := (idx/6)%2 == 1
	auto := (idx/12)%2 == 1
	gcfg := gen.Cfg{BlockSize: bs, SHA256: sha256}
	cfg := rtx.Config(gcfg)
	hs := gcfg.HashSize()
	desc := fmt.Sprintf("capacity-window kind=%s block=%d sha256=%v auto=%v", kind, bs, sha256, auto)
	mkTxn1 := func(L int) *gen.Txn {
		switch kind {
		case "log":
			return &gen.Txn{ID: 1, Refs: []gen.Ref{{Name: "refs/a", Kind: gen.KVal, Value: gen.IDHash(1, 0, hs)}},
				Logs: []gen.Log{{Name: "refs/a", New: gen.IDHash(1, 0, hs), User: "u", Email: "e", Time: 1 << 40, Msg: strings.Repeat("m", L) + "\n"}}}
		default:
			return &gen.Txn{ID: 1, Refs: []gen.Ref{{Name: "refs/a", Kind: gen.KVal, Value: gen.IDHash(1, 0, hs)},
				{Name: "refs/b" + strings.Repeat("x", L), Kind: gen.KVal, Value: gen.IDHash(1, 1, hs)}}}
		}
	}
	// largest length Add accepts (probed on scratch directories)
	accepts := func(L int) bool {
		dir := c.TempDir(fmt.Sprintf("capprobe%d", idx))
		defer os.RemoveAll(dir)
		st, err := stx.Open(dir, cfg)
		if err != nil {
			return false
		}
		defer stx.SafeClose(st)
		_, err = stx.Apply(st, mkTxn1(L))
		return err == nil
	}
	lo, hi := 1, int(bs)
	if !accepts(lo) {
		r.Note("%s: even a short record is rejected; family skipped", desc)
		return
	}
	for lo+1 < hi {
		mid := (lo + hi) / 2
		if accepts(mid) {
			lo = mid
		} else {
			hi = mid
		}
	}
	lmax := lo
	r.SetAdd("capacity_limits", fmt.Sprintf("%s block=%d hash=%d: longest accepted %s length %d", kind, bs, hs, map[string]string{"log": "message", "ref": "name padding"}[kind], lmax))
	for L := lmax; L > lmax-48 && L > 0; L-- {
		r.Evaluations++
		cs := map[string]interface{}{"prop": c.Prop, "seed": c.Seed, "index": idx, "family": desc, "length": L, "longest_accepted": lmax}
		dir := c.TempDir(fmt.Sprintf("cap%d", idx))
		func() {
			defer os.RemoveAll(dir)
			st, err := stx.Open(dir, cfg)
			if err != nil {
				r.Inconclusive++
				return
			}
			defer func() { stx.SafeClose(st) }()
			setAutoCompact(st, auto)
			model := gen.NewModel(hs, false)
			t1 := mkTxn1(L)
			ui, err := stx.Apply(st, t1)
			if err != nil {
				r.Violate([]string{"C04"}, "capacity|add-rejected-below-limit", fmt.Sprintf("%s: Add of a record of length %d failed (%v) although length %d is accepted", desc, L, err, lmax), cs)
				return
			}
			model.Apply(t1, ui)
			t2 := &gen.Txn{ID: 2, Refs: []gen.Ref{{Name: "refs/a", Kind: gen.KDel}}}
			if auto && kind == "ref" {
				// a second long ref gives the new table the size class of the first one, so
				// that the automatic compaction inside this Add merges the two
				t2.Refs = append(t2.Refs, gen.Ref{Name: "refs/y" + strings.Repeat("y", L-40), Kind: gen.KVal, Value: gen.IDHash(2, 0, hs)},
					gen.Ref{Name: "refs/z" + strings.Repeat("z", L-40), Kind: gen.KVal, Value: gen.IDHash(2, 1, hs)})
			}
			ui, err = stx.Apply(st, t2)
			committed := false
			if err != nil {
				// did the transaction commit although Add failed (auto-compaction error)?
				if d, _, ferr := stx.FreshView(dir, cfg); ferr == nil {
					m2 := model.Clone()
					m2.Apply(t2, ui)
					committed = d == m2.Dump() || d != model.Dump()
				}
				sig := "capacity|add-failed|" + capErrClass(err) + "|kind=" + kind
				if committed {
					sig = "capacity|add-failed-after-commit|" + capErrClass(err) + "|kind=" + kind
				}
				r.Violate([]string{"C04"}, sig, fmt.Sprintf("%s, length %d: Add of {delete refs/a} by the only handle failed with %q (committed anyway: %v): the automatic compaction cannot place the surviving record at the start of the new table", desc, L, err, committed), cs)
				return
			}
			model.Apply(t2, ui)
			before, _, err := viewDump(st)
			if err != nil || before != model.Dump() {
				r.Violate([]string{"C07"}, "capacity|view-mismatch-before-compaction", fmt.Sprintf("%s, length %d: view differs from the model before the compaction: %v %s", desc, L, err, gen.DiffLines(model.Dump(), before)), cs)
				return
			}
			cerr := rtx.Safe(func() error { return st.CompactAll(nil) })
			if cerr != nil {
				r.Violate([]string{"C04"}, "capacity|compactall-failed|"+capErrClass(cerr)+"|kind="+kind, fmt.Sprintf("%s, length %d: CompactAll by the only handle failed with %q: the record was accepted by Add but does not fit when it becomes the first record of the compacted table (the first block also holds the file header)", desc, L, cerr), cs)
				return
			}
			after, _, err := viewDump(st)
			if err != nil || after != model.Dump() {
				r.Violate([]string{"C07"}, "capacity|view-mismatch-after-compaction", fmt.Sprintf("%s, length %d: after CompactAll the handle's view differs from the model: %v %s", desc, L, err, gen.DiffLines(model.Dump(), after)), cs)
				return
			}
			fresh, _, err := stx.FreshView(dir, cfg)
			if err != nil || fresh != model.Dump() {
				r.Violate([]string{"C07"}, "capacity|fresh-view-mismatch-after-compaction", fmt.Sprintf("%s, length %d: after CompactAll a fresh handle's view differs from the model: %v %s", desc, L, err, gen.DiffLines(model.Dump(), fresh)), cs)
				return
			}
			r.Count("capacity_window_compactions", 1)
			r.Nontrivial(rep.Hash("cap", desc, fmt.Sprint(L)))
		}()
	}
}

func viewDump(st *reftable.Stack) (string, []string, error) {
	refs, logs, err := stx.View(st)
	if err != nil {
		return "", nil, err
	}
	return gen.Dump(refs, logs), stx.Names(st), nil
}

func capErrClass(err error) string {
	if err != nil && strings.Contains(err.Error(), "too large for block size") {
		return "record-too-large-for-first-block"
	}
	return errClass(err)
}
