package props

import (
	"time"
	"github.com/google/reftable/verifvfs/vos"
	"bytes"
	"fmt"
	"os"
	"path/filepath"
	"reflect"

	"github.com/google/reftable"
	"verif/harness/gen"
	"verif/harness/rep"
	"verif/harness/rtx"
	"verif/harness/stx"
)

// seqResidue is M-own for sequential histories: when no call is in progress the
// directory may hold only tables.list and the tables it names.
func seqResidue(dir string, handles []*reftable.Stack) (leaks []string) {
	return stx.Residue(dir)
}

// RunC09: a stale handle never commits; it is refreshed and its retry succeeds.
func RunC09(c *Ctx) {
	r := c.Rep
	r.Rule = "case = one call in a sequential random history over 2..4 handles on one directory (Add, NewAddition, CompactAll, AutoCompact, Clean, reopen); the harness knows which handles are stale (names != tables.list, read independently). Stale writes must fail with ErrLockFailure (Add/NewAddition) or do nothing, leave the directory byte-identical, then UpToDate()/NextUpdateIndex()/retry are checked; distinct = (history, step); non-trivial = the call was issued through a stale handle; views of handles holding exactly the listed tables are compared with the model; Adds carrying an already committed update index must fail and change nothing; restart histories (stack emptied, numbering restarts, the same ranges committed again while a second handle holds the first generation)"
	n := c.N(1000, 40000)
	for idx := 0; idx < n; idx++ {
		if !c.Mine(idx) {
			continue
		}
		runC09History(c, idx)
	}
	for idx := 0; idx < c.N(48, 600); idx++ {
		if c.Mine(idx) {
			runC09Restart(c, idx)
		}
	}
}

// runC09Restart: update-index numbering restarts after the stack became empty, so the same
// update-index ranges are committed a second time with different content while a second
// handle B still holds the tables of the first time. B is stale: its Add must fail with
// ErrLockFailure and refresh it, or - whatever the implementation decides - B must end up
// showing the committed state after its own successful Add, never the long-deleted refs.
func runC09Restart(c *Ctx, idx int) {
	r := c.Rep
	rng := gen.NewRng(gen.Mix(c.Seed^0xc09e, int64(idx)))
	gcfg := cfgForHistory(rng, idx)
	cfg := rtx.Config(gcfg)
	hs := gcfg.HashSize()
	dir := c.TempDir(fmt.Sprintf("c09r-%d", idx))
	if idx%3 == 2 {
		dir = c.DiskDir(fmt.Sprintf("c09r-%d", idx))
	}
	defer os.RemoveAll(dir)
	if idx%4 == 1 {
		vos.MtimeGranularity = 20 * 365 * 24 * time.Hour
		defer func() { vos.MtimeGranularity = 0 }()
	}
	hc := histCase{Prop: c.Prop, Seed: c.Seed, Index: idx, Gen: "runC09Restart", Cfg: gcfg.String()}
	fail := func(props []string, sig, d string) {
		h := hc
		h.Detail = d
		h.Ops = append([]string(nil), hc.Ops...)
		r.Violate(props, sig, d, h)
	}
	a, err := stx.Open(dir, cfg)
	if err != nil {
		return
	}
	defer func() { stx.SafeClose(a) }()
	model := gen.NewModel(hs, gcfg.ExactLog)
	id := 0
	rounds := 1 + idx%3 // tables per generation: 2, 3 or 4 one-ref transactions
	gen1 := func(prefix string) bool {
		for i := 0; i <= rounds; i++ {
			id++
			t := &gen.Txn{ID: id, Refs: []gen.Ref{{Name: fmt.Sprintf("refs/heads/%s%d", prefix, i), Kind: gen.KVal, Value: gen.IDHash(id, 0, hs)}}}
			ui, err := stx.Apply(a, t)
			hc.Ops = append(hc.Ops, fmt.Sprintf("A add %s%d -> ui=%d %v; list %v", prefix, i, ui, err, mustList(dir)))
			if err != nil {
				fail([]string{"C04"}, "sequential-add-failed|"+errClass(err), fmt.Sprintf("Add by the only writer failed: %v", err))
				return false
			}
			model.Apply(t, ui)
		}
		return true
	}
	if !gen1("x") {
		return
	}
	// some cases compact the first generation fully, so that both generations end in one
	// table covering the same range
	full := idx%2 == 0
	if full {
		if err := rtx.Safe(func() error { return a.CompactAll(nil) }); err != nil {
			fail([]string{"C04"}, "fresh-compactall-failed|"+errClass(err), err.Error())
			return
		}
	}
	firstNames := mustList(dir)
	b, err := stx.Open(dir, cfg)
	if err != nil {
		fail([]string{"C05"}, "open-failed", err.Error())
		return
	}
	defer func() { stx.SafeClose(b) }()
	hc.Ops = append(hc.Ops, fmt.Sprintf("B opens: %v", stx.Names(b)))
	// delete everything, compact to nothing
	id++
	del := &gen.Txn{ID: id}
	for _, n := range model.LiveNames() {
		del.Refs = append(del.Refs, gen.Ref{Name: n, Kind: gen.KDel})
	}
	ui, err := stx.Apply(a, del)
	if err != nil {
		fail([]string{"C04"}, "sequential-add-failed|"+errClass(err), err.Error())
		return
	}
	model.Apply(del, ui)
	if err := rtx.Safe(func() error { return a.CompactAll(nil) }); err != nil {
		fail([]string{"C04"}, "fresh-compactall-failed|"+errClass(err), err.Error())
		return
	}
	hc.Ops = append(hc.Ops, fmt.Sprintf("A deletes every ref and compacts: list %v", mustList(dir)))
	if len(mustList(dir)) != 0 {
		r.Inconclusive++
		r.Note("restart case: the list did not become empty (%v)", mustList(dir))
		return
	}
	if !gen1("y") {
		return
	}
	if full {
		if err := rtx.Safe(func() error { return a.CompactAll(nil) }); err != nil {
			fail([]string{"C04"}, "fresh-compactall-failed|"+errClass(err), err.Error())
			return
		}
	}
	r.Evaluations++
	secondNames := mustList(dir)
	sameRanges := len(firstNames) == len(secondNames)
	for i := 0; sameRanges && i < len(firstNames); i++ {
		sameRanges = len(firstNames[i]) > 30 && len(secondNames[i]) > 30 && firstNames[i][:29] == secondNames[i][:29]
	}
	if sameRanges {
		r.Count("restart_same_ranges_committed_twice", 1)
		r.Nontrivial(rep.Hash("c09r", fmt.Sprint(c.Seed), fmt.Sprint(idx)))
	}
	hc.Ops = append(hc.Ops, fmt.Sprintf("second generation: list %v (first generation was %v)", secondNames, firstNames))
	// B, idle since the first generation, now writes
	id++
	t := &gen.Txn{ID: id, Refs: []gen.Ref{{Name: "refs/heads/z", Kind: gen.KVal, Value: gen.IDHash(id, 0, hs)}}}
	before := stx.DirSnapshot(dir)
	ui, err = stx.Apply(b, t)
	hc.Ops = append(hc.Ops, fmt.Sprintf("B (holding %v) add z -> ui=%d %v", firstNames, ui, err))
	if err == nil {
		fail([]string{"C09"}, "stale-add-succeeded|after-index-restart", fmt.Sprintf("B still held the first generation %v while the list was %v, its Add succeeded", firstNames, secondNames))
		return
	}
	if err != reftable.ErrLockFailure {
		fail([]string{"C09"}, "stale-add-wrong-error|"+errClass(err), fmt.Sprintf("stale Add failed with %v, want ErrLockFailure %s", err, PanicDetail(err)))
		return
	}
	if !stx.SameSnapshot(before, stx.DirSnapshot(dir)) {
		fail([]string{"C09", "C16"}, "stale-add-changed-directory", fmt.Sprintf("failed stale Add changed the directory: %v -> %v", before, stx.DirSnapshot(dir)))
		return
	}
	ui, err = stx.Apply(b, t)
	hc.Ops = append(hc.Ops, fmt.Sprintf("B retry -> ui=%d %v", ui, err))
	if err != nil {
		fail([]string{"C09"}, "retry-failed|"+errClass(err), fmt.Sprintf("immediate retry after the failed stale Add failed: %v %s", err, PanicDetail(err)))
		return
	}
	model.Apply(t, ui)
	refs, logs, verr := stx.View(b)
	if verr != nil {
		fail([]string{"C10", "C09"}, "view-read-failed-after-retry|"+errClass(verr), verr.Error())
		return
	}
	if got, want := gen.Dump(refs, logs), model.Dump(); got != want {
		fail([]string{"C09", "C10"}, "view-after-own-add-differs", fmt.Sprintf("after its successful Add B's view is not the committed state: %s", gen.DiffLines(want, got)))
		return
	}
	if fd, _, err := stx.FreshView(dir, cfg); err != nil || fd != model.Dump() {
		fail([]string{"C04"}, "sequential-view-mismatch", fmt.Sprintf("fresh view after the restart history: err %v %s", err, gen.DiffLines(model.Dump(), fd)))
		return
	}
	r.Count("restart_histories", 1)
}

func runC09History(c *Ctx, idx int) {
	r := c.Rep
	rng := gen.NewRng(gen.Mix(c.Seed^0xc09, int64(idx)))
	gcfg := cfgForHistory(rng, idx)
	cfg := rtx.Config(gcfg)
	dir := c.TempDir(fmt.Sprintf("c09-%d", idx))
	if idx%4 == 3 {
		// a quarter of the histories on the disk-backed file system (inode reuse, real
		// directory ordering) instead of tmpfs
		dir = c.DiskDir(fmt.Sprintf("c09-%d", idx))
		r.Count("histories_on_disk_fs", 1)
	}
	defer os.RemoveAll(dir)
	if idx%5 == 2 {
		// a file system with coarse time stamps: every FileInfo the code obtains carries
		// the same modification time (files written within one tick / one second)
		vos.MtimeGranularity = 20 * 365 * 24 * time.Hour
		defer func() { vos.MtimeGranularity = 0 }()
		r.Count("histories_with_coarse_mtime", 1)
	}
	hc := histCase{Prop: c.Prop, Seed: c.Seed, Index: idx, Gen: "runC09History", Cfg: gcfg.String()}
	fail := func(props []string, sig, d string) {
		h := hc
		h.Detail = d
		h.Ops = append([]string(nil), hc.Ops...)
		r.Violate(props, sig, d, h)
	}
	nh := 2 + rng.Intn(3)
	handles := make([]*reftable.Stack, nh)
	for i := range handles {
		st, err := stx.Open(dir, cfg)
		if err != nil {
			fail([]string{"C05"}, "open-failed", err.Error())
			return
		}
		handles[i] = st
	}
	defer func() {
		for _, h := range handles {
			if h != nil {
				stx.SafeClose(h)
			}
		}
	}()
	model := gen.NewModel(gcfg.HashSize(), gcfg.ExactLog)
	keys := gen.FlatKeys(6)
	opts := gen.TxnOpts{Keys: keys, MaxRefs: 3, Journal: true, DelP: 0.2, LogTombP: 0.1}
	if idx%10 == 3 {
		// few keys, many deletions, no logs: full compactions can leave an EMPTY list, so
		// handles go stale through a list that shrank to nothing
		opts = gen.TxnOpts{Keys: keys[:2], MaxRefs: 2, DelP: 0.7, NoLogs: true}
	}
	var maxUI uint64
	id := 0
	nops := 10 + rng.Intn(40)
	isStale := func(h *reftable.Stack) bool {
		names, _ := stx.ListNames(dir)
		return !reflect.DeepEqual(append([]string{}, names...), append([]string{}, stx.Names(h)...))
	}
	listBytes := func() []byte {
		b, _ := os.ReadFile(filepath.Join(dir, "tables.list"))
		return b
	}
	for op := 0; op < nops; op++ {
		// "every committed update index" = the indices present in the current stack: when
		// a full compaction cancelled everything the list is empty and numbering restarts
		if names, _ := stx.ListNames(dir); len(names) == 0 {
			maxUI = 0
		}
		hi := rng.Intn(nh)
		h := handles[hi]
		stale := isStale(h)
		if !stale {
			// a handle whose tables are exactly the listed ones shows the committed state
			// (table names are unique per content, so equal names mean equal files)
			refs, logs, verr := stx.View(h)
			if verr != nil {
				fail([]string{"C10", "C09"}, "up-to-date-handle-read-failed|"+errClass(verr), fmt.Sprintf("h%d holds exactly the listed tables %v but reading through it failed: %v", hi, stx.Names(h), verr))
				return
			}
			if got, want := gen.Dump(refs, logs), model.Dump(); got != want {
				fail([]string{"C09", "C10"}, "up-to-date-handle-view-differs", fmt.Sprintf("h%d holds exactly the listed tables %v but its view is not the committed state: %s", hi, stx.Names(h), gen.DiffLines(want, got)))
				return
			}
			r.Count("up_to_date_handle_views_checked", 1)
		}
		before := stx.DirSnapshot(dir)
		lbBefore := listBytes()
		kinds := []string{"add", "add", "add", "newaddition", "compactall", "autocompact", "clean", "reopen", "add-big", "commit-noauto", "commit-noauto", "compactrange", "add-while-locked", "compactexpiry"}
		kind := kinds[rng.Intn(len(kinds))]
		if kind == "add" && maxUI > 0 && (idx*5+op)%6 == 1 {
			// every sixth plain Add is preceded by an Add carrying an already committed
			// update index (chosen without the history's PRNG, whose stream stays what it
			// was before this operation existed)
			kind = "add-old-index"
		}
		if opts.NoLogs && !stale && rng.Chance(0.25) {
			kind = "compactall"
		}
		desc := fmt.Sprintf("h%d(stale=%v) %s", hi, stale, kind)
		r.Evaluations++
		unchanged := func() bool {
			return stx.SameSnapshot(before, stx.DirSnapshot(dir)) && bytes.Equal(lbBefore, listBytes())
		}
		addTxn := func(filler int) (*gen.Txn, uint64, error) {
			id++
			o := opts
			o.Filler = filler
			t := gen.GenTxn(rng, id, model, o)
			ui, err := stx.Apply(h, t)
			return t, ui, err
		}
		if kind == "commit-noauto" && (stale || rng.Chance(0.3)) {
			kind = "add" // through a stale handle (or sometimes) use the plain Add
		}
		if kind == "compactrange" && !haveCompactRange {
			kind = "autocompact"
		}
		if kind == "add-while-locked" {
			// another handle holds an open Addition (the write lock) while h adds: h's Add
			// must fail with ErrLockFailure and change nothing; once the holder abandons
			// its Addition the handle must be refreshed and the retry must succeed.
			var holder *reftable.Stack
			for j, y := range handles {
				if j != hi && y != nil && !isStale(y) {
					holder = y
					break
				}
			}
			if holder == nil {
				kind = "add"
			} else {
				var hold *reftable.Addition
				herr := rtx.Safe(func() error {
					var e error
					hold, e = holder.NewAddition()
					return e
				})
				if herr != nil {
					fail([]string{"C04"}, "fresh-newaddition-failed", fmt.Sprintf("NewAddition through an up-to-date handle failed: %v", herr))
					return
				}
				beforeL := stx.DirSnapshot(dir)
				id++
				t := gen.GenTxn(rng, id, model, opts)
				_, err := stx.Apply(h, t)
				hc.Ops = append(hc.Ops, fmt.Sprintf("%s t%d while another handle holds the lock -> %v", desc, t.ID, err))
				if err != reftable.ErrLockFailure {
					rtx.Safe(func() error { hold.Close(); return nil })
					fail([]string{"C09", "C04", "C08"}, "add-under-foreign-lock-"+okOrErr(err), fmt.Sprintf("Add while another handle holds tables.list.lock returned %v, want ErrLockFailure", err))
					return
				}
				if !stx.SameSnapshot(beforeL, stx.DirSnapshot(dir)) || !bytes.Equal(lbBefore, listBytes()) {
					rtx.Safe(func() error { hold.Close(); return nil })
					fail([]string{"C09", "C16"}, "failed-add-under-foreign-lock-changed-directory", fmt.Sprintf("a failed Add changed the directory: %v -> %v", beforeL, stx.DirSnapshot(dir)))
					return
				}
				rtx.Safe(func() error { hold.Close(); return nil })
				// after the failed Add the handle has been refreshed (the property does not
				// make this depend on why the Add failed)
				var up bool
				var uerr error
				rtx.Safe(func() error { up, uerr = h.UpToDate(); return nil })
				if uerr != nil || !up {
					fail([]string{"C09"}, "not-refreshed-after-failed-add|foreign-lock", fmt.Sprintf("after an Add that failed on a held lock UpToDate() = %v, %v; handle %v, list %v", up, uerr, stx.Names(h), mustList(dir)))
					return
				}
				ui2, err2 := stx.Apply(h, t)
				hc.Ops = append(hc.Ops, fmt.Sprintf("h%d retry t%d -> ui=%d %v", hi, t.ID, ui2, err2))
				if err2 != nil {
					fail([]string{"C09"}, "retry-failed|foreign-lock|"+errClass(err2), fmt.Sprintf("immediate retry after the lock holder went away failed: %v %s", err2, PanicDetail(err2)))
					return
				}
				if ui2 <= maxUI {
					fail([]string{"C09"}, "retry-update-index-not-greater", fmt.Sprintf("retry used update index %d, committed max is %d", ui2, maxUI))
					return
				}
				model.Apply(t, ui2)
				maxUI = ui2
				if stale {
					r.Nontrivial(rep.Hash("c09", fmt.Sprint(c.Seed), fmt.Sprint(idx), fmt.Sprint(op)))
					r.Count("stale_adds_under_foreign_lock", 1)
				}
				r.Count("adds_under_foreign_lock", 1)
			}
		}
		if kind == "add-old-index" {
			// a write prepared earlier: its table carries an update index that has been
			// committed in the meantime (the caller computed it before another handle's
			// Add, or retries a prepared write). It can never commit - the listed ranges
			// stay strictly increasing - whether or not the handle is stale.
			orng := gen.NewRng(gen.Mix(c.Seed^0xc09f, int64(idx)*1000+int64(op)))
			old := maxUI
			if orng.Chance(0.3) {
				old = 1
			}
			t := gen.GenTxn(orng, 900000+op, model, opts)
			err := rtx.Safe(func() error {
				return h.Add(func(w *reftable.Writer) error { return stx.WriteTxn(w, t, old) })
			})
			hc.Ops = append(hc.Ops, fmt.Sprintf("%s t%d at update index %d (committed max %d) -> %v", desc, t.ID, old, maxUI, err))
			if rtx.IsPanic(err) {
				fail([]string{"C09", "C16"}, "add-old-index-"+PanicSig(err), fmt.Sprintf("Add of a table with an already committed update index panicked: %s", PanicDetail(err)))
				return
			}
			if err == nil || !unchanged() {
				fail([]string{"C09", "C05"}, "add-with-committed-update-index-"+map[bool]string{true: "succeeded", false: "changed-directory"}[err == nil], fmt.Sprintf("Add of a table at update index %d (committed max %d, handle stale=%v) returned %v; directory %v -> %v; list %q -> %q", old, maxUI, stale, err, before, stx.DirSnapshot(dir), lbBefore, listBytes()))
				return
			}
			r.Count("adds_with_committed_update_index", 1)
			if stale {
				r.Nontrivial(rep.Hash("c09", fmt.Sprint(c.Seed), fmt.Sprint(idx), fmt.Sprint(op)))
			}
			// the failed Add refreshed the handle: the proper retry succeeds
			if isStale(h) {
				fail([]string{"C09"}, "not-refreshed-after-failed-add|old-index", fmt.Sprintf("after the failed Add the handle holds %v, the list is %v", stx.Names(h), mustList(dir)))
				return
			}
			kind = "add"
			stale = false
			desc = fmt.Sprintf("h%d retry after add-old-index", hi)
		}
		switch kind {
		case "add-while-locked":
			// handled above
		case "commit-noauto":
			// NewAddition + Add + Commit: commits without the auto-compaction of Stack.Add,
			// so tables of very different sizes can sit next to each other
			id++
			o := opts
			o.Filler = []int{0, 0, 60, 200}[rng.Intn(4)]
			t := gen.GenTxn(rng, id, model, o)
			var ui uint64
			err := rtx.Safe(func() error {
				add, err := h.NewAddition()
				if err != nil {
					return err
				}
				defer add.Close()
				ui = h.NextUpdateIndex()
				if err := add.Add(func(w *reftable.Writer) error { return stx.WriteTxn(w, t, ui) }); err != nil {
					return err
				}
				return add.Commit()
			})
			hc.Ops = append(hc.Ops, fmt.Sprintf("%s t%d -> ui=%d %v", desc, t.ID, ui, err))
			if err != nil {
				fail([]string{"C04"}, "fresh-commit-failed|"+errClass(err), fmt.Sprintf("NewAddition/Add/Commit through an up-to-date handle failed: %v %s", err, PanicDetail(err)))
				return
			}
			if ui <= maxUI {
				fail([]string{"C09", "C04"}, "update-index-not-greater", fmt.Sprintf("Commit used update index %d, committed max is %d", ui, maxUI))
				return
			}
			model.Apply(t, ui)
			maxUI = ui
		case "compactrange":
			n := len(stx.Names(h))
			first, last := 0, 0
			if n >= 2 {
				first = rng.Intn(n - 1)
				last = first + 1 + rng.Intn(n-first-1)
			}
			err := rtx.Safe(func() error { _, e := compactRange(h, first, last); return e })
			hc.Ops = append(hc.Ops, fmt.Sprintf("%s [%d,%d] of %d -> %v", desc, first, last, n, err))
			if rtx.IsPanic(err) {
				fail(panicProps(stale), "compactrange-"+PanicSig(err), fmt.Sprintf("compactRange panicked: %s", PanicDetail(err)))
				return
			}
			if stale {
				if !unchanged() {
					fail([]string{"C09"}, "stale-compactrange-changed-directory", fmt.Sprintf("compaction of [%d,%d] through a stale handle changed the directory: %v -> %v; list %q -> %q", first, last, before, stx.DirSnapshot(dir), lbBefore, listBytes()))
					return
				}
				r.Nontrivial(rep.Hash("c09", fmt.Sprint(c.Seed), fmt.Sprint(idx), fmt.Sprint(op)))
				r.Count("stale_compactrange", 1)
			} else if err != nil {
				fail([]string{"C04"}, "fresh-compactrange-failed|"+errClass(err), fmt.Sprintf("compaction through an up-to-date handle failed without contention: %v", err))
				return
			}
		case "add", "add-big":
			filler := 0
			if kind == "add-big" {
				filler = 30 + rng.Intn(100)
			}
			t, ui, err := addTxn(filler)
			if stale {
				hc.Ops = append(hc.Ops, fmt.Sprintf("%s t%d -> %v", desc, t.ID, err))
				if err == nil {
					fail([]string{"C09", "C04"}, "stale-add-succeeded", fmt.Sprintf("Add through a stale handle returned nil (%s)", desc))
					return
				}
				if err != reftable.ErrLockFailure {
					sig := "stale-add-wrong-error|" + errClass(err)
					if rtx.IsPanic(err) {
						sig = "stale-add-" + PanicSig(err)
					}
					fail([]string{"C09"}, sig, fmt.Sprintf("Add through a stale handle failed with %v, want ErrLockFailure %s", err, PanicDetail(err)))
					return
				}
				if !unchanged() {
					fail([]string{"C09", "C16"}, "stale-add-changed-directory", fmt.Sprintf("failed Add through a stale handle changed the directory: before %v after %v", before, stx.DirSnapshot(dir)))
					return
				}
				// refreshed?
				var up bool
				var uerr error
				rtx.Safe(func() error { up, uerr = h.UpToDate(); return nil })
				if uerr != nil || !up {
					fail([]string{"C09"}, "not-refreshed-after-failed-add", fmt.Sprintf("after the failed Add UpToDate() = %v, %v; handle %v, list %v", up, uerr, stx.Names(h), mustList(dir)))
					return
				}
				if nu := h.NextUpdateIndex(); nu <= maxUI {
					fail([]string{"C09"}, "stale-next-update-index", fmt.Sprintf("after the failed Add NextUpdateIndex() = %d, committed max is %d", nu, maxUI))
					return
				}
				// immediate retry
				ui2, err2 := stx.Apply(h, t)
				hc.Ops = append(hc.Ops, fmt.Sprintf("h%d retry t%d -> ui=%d %v", hi, t.ID, ui2, err2))
				if err2 != nil {
					sig := "retry-failed|" + errClass(err2)
					if rtx.IsPanic(err2) {
						sig = "retry-" + PanicSig(err2)
					}
					fail([]string{"C09"}, sig, fmt.Sprintf("immediate retry after a failed Add failed: %v %s", err2, PanicDetail(err2)))
					return
				}
				if ui2 <= maxUI {
					fail([]string{"C09"}, "retry-update-index-not-greater", fmt.Sprintf("retry used update index %d, committed max is %d", ui2, maxUI))
					return
				}
				model.Apply(t, ui2)
				maxUI = ui2
				r.Nontrivial(rep.Hash("c09", fmt.Sprint(c.Seed), fmt.Sprint(idx), fmt.Sprint(op)))
				r.Count("stale_adds", 1)
			} else {
				hc.Ops = append(hc.Ops, fmt.Sprintf("%s t%d -> ui=%d %v", desc, t.ID, ui, err))
				if err != nil {
					sig := "fresh-add-failed|" + errClass(err)
					if rtx.IsPanic(err) {
						sig = "fresh-add-" + PanicSig(err)
					}
					fail([]string{"C04"}, sig, fmt.Sprintf("Add through an up-to-date handle failed without contention: %v %s", err, PanicDetail(err)))
					return
				}
				if ui <= maxUI {
					fail([]string{"C09", "C04"}, "update-index-not-greater", fmt.Sprintf("Add used update index %d, committed max is %d", ui, maxUI))
					return
				}
				model.Apply(t, ui)
				maxUI = ui
			}
		case "newaddition":
			var add *reftable.Addition
			err := rtx.Safe(func() error {
				var e error
				add, e = h.NewAddition()
				return e
			})
			hc.Ops = append(hc.Ops, fmt.Sprintf("%s -> %v", desc, err))
			if stale {
				if err != reftable.ErrLockFailure {
					if add != nil {
						add.Close()
					}
					fail([]string{"C09"}, "stale-newaddition-"+okOrErr(err), fmt.Sprintf("NewAddition through a stale handle returned %v, want ErrLockFailure", err))
					return
				}
				if !unchanged() {
					fail([]string{"C09", "C16"}, "stale-newaddition-changed-directory", "failed NewAddition changed the directory")
					return
				}
				r.Nontrivial(rep.Hash("c09", fmt.Sprint(c.Seed), fmt.Sprint(idx), fmt.Sprint(op)))
				r.Count("stale_newadditions", 1)
			} else {
				if err != nil {
					fail([]string{"C04"}, "fresh-newaddition-failed", fmt.Sprintf("NewAddition through an up-to-date handle failed: %v", err))
					return
				}
				// sometimes write one or two tables into the transaction before abandoning it
				if rng.Chance(0.6) {
					ui := h.NextUpdateIndex()
					for k := 0; k < 1+rng.Intn(2); k++ {
						id++
						t := gen.GenTxn(rng, id, model, opts)
						u := ui
						aerr := rtx.Safe(func() error { return add.Add(func(w *reftable.Writer) error { return stx.WriteTxn(w, t, u) }) })
						if aerr != nil {
							rtx.Safe(func() error { add.Close(); return nil })
							fail([]string{"C04"}, "addition-add-failed|"+errClass(aerr), fmt.Sprintf("Addition.Add of a legal table failed: %v", aerr))
							return
						}
						ui++
					}
					hc.Ops[len(hc.Ops)-1] += " (+tables, then abandoned)"
					r.Count("abandoned_additions_with_tables", 1)
				}
				// abandon it: must leave no trace
				rtx.Safe(func() error { add.Close(); return nil })
				if !unchanged() {
					fail([]string{"C16", "C04"}, "abandoned-addition-left-trace", fmt.Sprintf("NewAddition+Close changed the directory: %v -> %v", before, stx.DirSnapshot(dir)))
					return
				}
				if nu := h.NextUpdateIndex(); nu != maxUI+1 && !(maxUI == 0 && nu == 1) {
					fail([]string{"C09", "C04"}, "next-update-index-after-abandoned-addition", fmt.Sprintf("after an abandoned Addition NextUpdateIndex() = %d, committed max is %d", nu, maxUI))
					return
				}
			}
		case "compactall", "autocompact", "clean", "compactexpiry":
			err := rtx.Safe(func() error {
				switch kind {
				case "compactexpiry":
					// the expiry path of a full compaction (other reload mode, rewrite of a
					// single table) with limits that expire nothing
					return h.CompactAll(&reftable.LogExpirationConfig{MinUpdateIndex: 1})
				case "compactall":
					return h.CompactAll(nil)
				case "autocompact":
					return h.AutoCompact()
				}
				return h.Clean()
			})
			hc.Ops = append(hc.Ops, fmt.Sprintf("%s -> %v", desc, err))
			if rtx.IsPanic(err) {
				fail(panicProps(stale), kind+"-"+PanicSig(err), fmt.Sprintf("%s panicked: %s", kind, PanicDetail(err)))
				return
			}
			if stale {
				if !unchanged() {
					fail([]string{"C09"}, "stale-"+kind+"-changed-directory", fmt.Sprintf("%s through a stale handle changed the directory: %v -> %v; list %q -> %q", kind, before, stx.DirSnapshot(dir), lbBefore, listBytes()))
					return
				}
				r.Nontrivial(rep.Hash("c09", fmt.Sprint(c.Seed), fmt.Sprint(idx), fmt.Sprint(op)))
				r.Count("stale_"+kind, 1)
			} else if err != nil {
				fail([]string{"C16", "C04"}, "fresh-"+kind+"-failed|"+errClass(err), fmt.Sprintf("%s through an up-to-date handle failed without contention: %v", kind, err))
				return
			}
		case "reopen":
			stx.SafeClose(h)
			st, err := stx.Open(dir, cfg)
			hc.Ops = append(hc.Ops, fmt.Sprintf("%s -> %v", desc, err))
			if err != nil {
				handles[hi] = nil
				fail([]string{"C05"}, "reopen-failed|"+errClass(err), "NewStack failed: "+err.Error())
				return
			}
			handles[hi] = st
		}
		// idle point: residue (C16) and list integrity (C05)
		if leaks := seqResidue(dir, handles); len(leaks) > 0 {
			cls := map[string]bool{}
			for _, l := range leaks {
				cls[stx.ClassOf(l)] = true
			}
			fail([]string{"C16"}, "sequential-residue|"+joinKeys(cls), fmt.Sprintf("after %q the directory holds %v besides tables.list and listed/held tables", desc, leaks))
			return
		}
		names, _ := stx.ListNames(dir)
		for _, nm := range names {
			if _, err := os.Stat(filepath.Join(dir, nm)); err != nil {
				fail([]string{"C05"}, "list-names-missing-table", fmt.Sprintf("after %q tables.list names %s which does not exist", desc, nm))
				return
			}
		}
		// fresh view == model, every few steps
		if op%6 == 5 || op == nops-1 {
			fd, _, err := stx.FreshView(dir, cfg)
			if err != nil {
				fail([]string{"C05"}, "fresh-open-failed|"+errClass(err), err.Error())
				return
			}
			if want := model.Dump(); fd != want {
				fail([]string{"C04"}, "sequential-view-mismatch", gen.DiffLines(want, fd))
				return
			}
		}
	}
	// all handles closed: nothing but list + listed tables
	for i, h := range handles {
		if h != nil {
			if err := stx.SafeClose(h); err != nil {
				fail([]string{"C16"}, "close-"+PanicSig(err), "Close panicked: "+PanicDetail(err))
			}
			handles[i] = nil
		}
	}
	if res := stx.Residue(dir); len(res) > 0 {
		fail([]string{"C16"}, "residue-after-close", fmt.Sprintf("after closing all handles the directory still holds %v", res))
	}
	r.Count("histories", 1)
	if idx%173 == 0 {
		ops := hc.Ops
		if len(ops) > 14 {
			ops = ops[:14]
		}
		r.Sample(map[string]interface{}{"index": idx, "cfg": gcfg.String(), "handles": nh, "ops": ops})
	}
}

func mustList(dir string) []string {
	n, _ := stx.ListNames(dir)
	return n
}

func okOrErr(err error) string {
	if err == nil {
		return "succeeded"
	}
	return "wrong-error"
}

func joinKeys(m map[string]bool) string {
	s := ""
	for _, k := range sortedKeys(m) {
		if s != "" {
			s += ","
		}
		s += k
	}
	return s
}

func panicProps(stale bool) []string {
	if stale {
		return []string{"C16", "C09"}
	}
	return []string{"C16"}
}
