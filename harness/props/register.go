package props

// Register fills the property table.
func Register(m map[string]func(*Ctx)) {
	m["C01"] = RunC01
	m["C02"] = RunC02
	m["C14"] = RunC14
	m["C03"] = RunC03
	m["C11"] = RunC11
	m["C07"] = RunC07
	m["C09"] = RunC09
	m["C12"] = RunC12
	m["C13"] = RunC13
	m["C17"] = RunC17
	m["C04"] = RunC04
	m["C05"] = RunC05
	m["C06"] = RunC06
	m["C08"] = RunC08
	m["C10"] = RunC10
	m["C16"] = RunC16
	m["C18"] = RunC18
	m["C19"] = RunC19
	m["C15"] = RunC15
	m["C18child"] = RunC18Child
	m["engBworker"] = RunEngBWorker
	m["ENGB"] = func(c *Ctx) { c.Rep.Rule = "engine B only (development entry point)"; runEngB(c, c.N(64, 600)) }
}
