// Package rtx adapts the harness's record types to the API of the code under test.
package rtx

import (
	"bytes"
	"fmt"
	"math"
	"runtime/debug"
	"sync/atomic"

	"github.com/google/reftable"
	"verif/harness/gen"
)

func Config(c gen.Cfg) reftable.Config {
	cfg := reftable.Config{
		Unaligned:        c.Unaligned,
		BlockSize:        c.BlockSize,
		SkipIndexObjects: c.SkipIndexObjects,
		RestartInterval:  c.Restart,
		ExactLogMessage:  c.ExactLog,
	}
	if c.SHA256 {
		cfg.HashID = reftable.SHA256ID
	} else {
		cfg.HashID = reftable.SHA1ID
	}
	return cfg
}

func ToRef(r *gen.Ref) *reftable.RefRecord {
	out := &reftable.RefRecord{RefName: r.Name, UpdateIndex: r.UI}
	switch r.Kind {
	case gen.KVal:
		out.Value = append([]byte(nil), r.Value...)
	case gen.KPeeled:
		out.Value = append([]byte(nil), r.Value...)
		out.TargetValue = append([]byte(nil), r.Peeled...)
	case gen.KSym:
		out.Target = r.Target
	}
	return out
}

func FromRef(r *reftable.RefRecord) gen.Ref {
	out := gen.Ref{Name: r.RefName, UI: r.UpdateIndex}
	switch {
	case r.Target != "":
		out.Kind = gen.KSym
		out.Target = r.Target
		// a record carrying both a target and values is not representable: flag it
		if r.Value != nil || r.TargetValue != nil {
			out.Kind = 99
			out.Value = append([]byte(nil), r.Value...)
			out.Peeled = append([]byte(nil), r.TargetValue...)
		}
	case r.Value != nil && r.TargetValue != nil:
		out.Kind = gen.KPeeled
		out.Value = append([]byte(nil), r.Value...)
		out.Peeled = append([]byte(nil), r.TargetValue...)
	case r.Value != nil:
		out.Kind = gen.KVal
		out.Value = append([]byte(nil), r.Value...)
	case r.TargetValue != nil:
		out.Kind = 98
		out.Peeled = append([]byte(nil), r.TargetValue...)
	default:
		out.Kind = gen.KDel
	}
	return out
}

func ToLog(l *gen.Log) *reftable.LogRecord {
	out := &reftable.LogRecord{RefName: l.Name, UpdateIndex: l.UI}
	if l.Del {
		return out
	}
	if l.Old != nil {
		out.Old = append([]byte{}, l.Old...)
	}
	if l.New != nil {
		out.New = append([]byte{}, l.New...)
	}
	out.Name, out.Email, out.Time, out.TZOffset, out.Message = l.User, l.Email, l.Time, l.TZ, l.Msg
	return out
}

func FromLog(l *reftable.LogRecord) gen.Log {
	out := gen.Log{Name: l.RefName, UI: l.UpdateIndex}
	if l.New == nil && l.Old == nil && l.Name == "" && l.Email == "" && l.Time == 0 && l.TZOffset == 0 && l.Message == "" {
		out.Del = true
		return out
	}
	if l.Old != nil {
		out.Old = append([]byte{}, l.Old...)
	}
	if l.New != nil {
		out.New = append([]byte{}, l.New...)
	}
	out.User, out.Email, out.Time, out.TZ, out.Msg = l.Name, l.Email, l.Time, l.TZOffset, l.Message
	return out
}

// PanicError is returned by the Safe wrappers when the code under test panicked.
type PanicError struct {
	Val   interface{}
	Stack string
}

func (p *PanicError) Error() string { return fmt.Sprintf("PANIC: %v", p.Val) }

// Safe runs f, converting a panic into a *PanicError.
func Safe(f func() error) (err error) {
	defer func() {
		if e := recover(); e != nil {
			err = &PanicError{Val: e, Stack: string(debug.Stack())}
		}
	}()
	return f()
}

func IsPanic(err error) bool {
	_, ok := err.(*PanicError)
	return ok
}

// WriteRecords drives a Writer with the records of a table.
func WriteRecords(w *reftable.Writer, t *gen.Table) error {
	if t.Cfg.SetLimits {
		w.SetLimits(t.Cfg.Min, t.Cfg.Max)
	}
	for i := range t.Refs {
		if err := w.AddRef(ToRef(&t.Refs[i])); err != nil {
			return err
		}
	}
	for i := range t.Logs {
		if err := w.AddLog(ToLog(&t.Logs[i])); err != nil {
			return err
		}
	}
	return nil
}

// WriteTable writes the table to memory. rejected is true when the writer refused the
// input with an error (not a panic).
func WriteTable(t *gen.Table) (data []byte, err error) {
	var buf bytes.Buffer
	err = Safe(func() error {
		cfg := Config(t.Cfg)
		w, err := reftable.NewWriter(&buf, &cfg)
		if err != nil {
			return err
		}
		if err := WriteRecords(w, t); err != nil {
			return err
		}
		return w.Close()
	})
	return buf.Bytes(), err
}

// FlakyWriter fails its FailAt-th Write (1-based) with ErrFlaky; if Sticky every later
// Write fails too. It records how many writes it saw.
type FlakyWriter struct {
	Buf    bytes.Buffer
	FailAt int
	Sticky bool
	Writes int
	Failed bool
}

var ErrFlaky = fmt.Errorf("harness: injected write error")

func (f *FlakyWriter) Write(b []byte) (int, error) {
	f.Writes++
	if f.FailAt > 0 && (f.Writes == f.FailAt || (f.Sticky && f.Writes > f.FailAt)) {
		f.Failed = true
		return 0, ErrFlaky
	}
	return f.Buf.Write(b)
}

// WriteTableFlaky writes the table through fw and reports the error of the first API call
// that failed (nil if AddRef/AddLog/Close all returned nil).
func WriteTableFlaky(t *gen.Table, fw *FlakyWriter) error {
	return Safe(func() error {
		cfg := Config(t.Cfg)
		w, err := reftable.NewWriter(fw, &cfg)
		if err != nil {
			return err
		}
		if err := WriteRecords(w, t); err != nil {
			return err
		}
		return w.Close()
	})
}

// MaxRecords bounds every iteration done by the harness.
var MaxRecords = 1 << 22

// drainCalls alternates between the two common calling conventions: a fresh record per
// NextRef/NextLog call, and one record variable reused for every call.
var drainCalls int64

func DrainRefs(it *reftable.Iterator, limit int) ([]gen.Ref, error) {
	var out []gen.Ref
	reuse := atomic.AddInt64(&drainCalls, 1)%2 == 0
	var shared reftable.RefRecord
	for {
		var fresh reftable.RefRecord
		recp := &fresh
		if reuse {
			recp = &shared
		}
		ok, err := it.NextRef(recp)
		rec := *recp
		if err != nil {
			return out, err
		}
		if !ok {
			return out, nil
		}
		out = append(out, FromRef(&rec))
		if limit > 0 && len(out) >= limit {
			return out, nil
		}
		if len(out) > MaxRecords {
			return out, fmt.Errorf("harness: iterator yielded more than %d records", MaxRecords)
		}
	}
}

func DrainLogs(it *reftable.Iterator, limit int) ([]gen.Log, error) {
	var out []gen.Log
	reuse := atomic.AddInt64(&drainCalls, 1)%2 == 0
	var shared reftable.LogRecord
	for {
		var fresh reftable.LogRecord
		recp := &fresh
		if reuse {
			recp = &shared
		}
		ok, err := it.NextLog(recp)
		rec := *recp
		if err != nil {
			return out, err
		}
		if !ok {
			return out, nil
		}
		out = append(out, FromLog(&rec))
		if limit > 0 && len(out) >= limit {
			return out, nil
		}
		if len(out) > MaxRecords {
			return out, fmt.Errorf("harness: iterator yielded more than %d records", MaxRecords)
		}
	}
}

// ScanAll scans all refs and logs of a table from the start.
func ScanAll(tab reftable.Table) (refs []gen.Ref, logs []gen.Log, err error) {
	err = Safe(func() error {
		it, err := tab.SeekRef("")
		if err != nil {
			return fmt.Errorf("SeekRef(\"\"): %v", err)
		}
		refs, err = DrainRefs(it, 0)
		if err != nil {
			return fmt.Errorf("ref scan: %v", err)
		}
		it, err = tab.SeekLog("", math.MaxUint64)
		if err != nil {
			return fmt.Errorf("SeekLog(\"\"): %v", err)
		}
		logs, err = DrainLogs(it, 0)
		if err != nil {
			return fmt.Errorf("log scan: %v", err)
		}
		return nil
	})
	return
}

// OpenBytes opens a table held in memory.
func OpenBytes(data []byte, name string) (rd *reftable.Reader, err error) {
	err = Safe(func() error {
		var e error
		rd, e = reftable.NewReader(&reftable.ByteBlockSource{Source: data}, name)
		return e
	})
	return
}
