// Package stx has helpers around the real Stack used by the stack-level checks.
package stx

import (
	"fmt"
	"os"
	"path/filepath"
	"sort"
	"strings"

	"github.com/google/reftable"
	"verif/harness/gen"
	"verif/harness/rtx"
)

// Open opens a stack handle (panics converted to errors).
func Open(dir string, cfg reftable.Config) (st *reftable.Stack, err error) {
	err = rtx.Safe(func() error {
		var e error
		st, e = reftable.NewStack(dir, cfg)
		return e
	})
	return
}

// Apply submits a transaction through Stack.Add; ui is the update index it used.
func Apply(st *reftable.Stack, t *gen.Txn) (ui uint64, err error) {
	err = rtx.Safe(func() error {
		return st.Add(func(w *reftable.Writer) error {
			ui = st.NextUpdateIndex()
			return WriteTxn(w, t, ui)
		})
	})
	return
}

// WriteTxn writes the transaction's records at update index ui.
func WriteTxn(w *reftable.Writer, t *gen.Txn, ui uint64) error {
	w.SetLimits(ui, ui)
	refs, logs := t.Materialize(ui)
	for i := range refs {
		if err := w.AddRef(rtx.ToRef(&refs[i])); err != nil {
			return err
		}
	}
	for i := range logs {
		if err := w.AddLog(rtx.ToLog(&logs[i])); err != nil {
			return err
		}
	}
	return nil
}

// View scans the handle's merged view.
func View(st *reftable.Stack) (refs []gen.Ref, logs []gen.Log, err error) {
	var m *reftable.Merged
	if e := rtx.Safe(func() error { m = st.Merged(); return nil }); e != nil {
		return nil, nil, e
	}
	if m == nil {
		return nil, nil, fmt.Errorf("Stack.Merged() is nil")
	}
	return rtx.ScanAll(m)
}

// FreshView opens a new handle on dir, scans it and closes it.
func FreshView(dir string, cfg reftable.Config) (dump string, names []string, err error) {
	st, err := Open(dir, cfg)
	if err != nil {
		return "", nil, fmt.Errorf("NewStack: %v", err)
	}
	defer SafeClose(st)
	refs, logs, err := View(st)
	if err != nil {
		return "", nil, err
	}
	return gen.Dump(refs, logs), Names(st), nil
}

func SafeClose(st *reftable.Stack) error {
	return rtx.Safe(func() error { st.Close(); return nil })
}

// Names returns the table names the handle holds (parsed from Stack.String()).
func Names(st *reftable.Stack) []string {
	s := st.String()
	s = strings.TrimPrefix(s, "[")
	s = strings.TrimSuffix(s, "]")
	if s == "" {
		return nil
	}
	return strings.Fields(s)
}

// ListNames parses tables.list independently of the code under test.
func ListNames(dir string) ([]string, bool) {
	b, err := os.ReadFile(filepath.Join(dir, "tables.list"))
	if err != nil {
		return nil, false
	}
	var out []string
	for _, l := range strings.Split(string(b), "\n") {
		if l != "" {
			out = append(out, l)
		}
	}
	return out, true
}

// DirNames lists the directory (sorted).
func DirNames(dir string) []string {
	es, err := os.ReadDir(dir)
	if err != nil {
		return nil
	}
	var out []string
	for _, e := range es {
		out = append(out, e.Name())
	}
	sort.Strings(out)
	return out
}

// DirSnapshot is name -> size of the directory (for "unchanged" checks).
func DirSnapshot(dir string) map[string]int64 {
	out := map[string]int64{}
	es, _ := os.ReadDir(dir)
	for _, e := range es {
		fi, err := e.Info()
		if err == nil {
			out[e.Name()] = fi.Size()
		}
	}
	return out
}

func SameSnapshot(a, b map[string]int64) bool {
	if len(a) != len(b) {
		return false
	}
	for k, v := range a {
		if bv, ok := b[k]; !ok || bv != v {
			return false
		}
	}
	return true
}

// Residue returns directory entries that are neither tables.list nor named by it.
func Residue(dir string) []string {
	names, _ := ListNames(dir)
	ok := map[string]bool{"tables.list": true}
	for _, n := range names {
		ok[n] = true
	}
	var out []string
	for _, n := range DirNames(dir) {
		if !ok[n] {
			out = append(out, n)
		}
	}
	return out
}

// ClassOf classifies a directory entry name.
func ClassOf(name string) string {
	switch {
	case name == "tables.list":
		return "list"
	case name == "tables.list.lock":
		return "list.lock"
	case strings.HasSuffix(name, ".ref.lock"):
		return "ref.lock"
	case strings.HasSuffix(name, ".lock"):
		return "other.lock"
	case strings.HasSuffix(name, ".ref"):
		return "ref"
	case strings.HasSuffix(name, ".reftmp"):
		return "tmp"
	}
	return "other"
}
