/*
 * C driver for check C15: reads and writes reftables/stacks through the C library of the
 * repository (/repo/c) and exchanges records with the Go harness in a hex line format:
 *
 *   r <hex name> <update index> d
 *   r <hex name> <update index> 1 <hex value>
 *   r <hex name> <update index> 2 <hex value> <hex peeled>
 *   r <hex name> <update index> 3 <hex target>
 *   g <hex name> <update index> d
 *   g <hex name> <update index> u <hex old> <hex new> <hex user> <hex email> <time> <tz> <hex msg>
 *
 * An empty string is written as "-". The driver formats records itself (the library's
 * own print helpers are debugging aids).
 */
#include <errno.h>
#include <fcntl.h>
#include <inttypes.h>
#include <stdint.h>
#include <stdio.h>
#include <stdlib.h>
#include <string.h>
#include <unistd.h>

#include "reftable-blocksource.h"
#include "reftable-error.h"
#include "reftable-generic.h"
#include "reftable-iterator.h"
#include "reftable-merged.h"
#include "reftable-reader.h"
#include "reftable-record.h"
#include "reftable-stack.h"
#include "reftable-writer.h"

#define SHA1_ID 0x73686131
#define SHA256_ID 0x73323536

static int hash_size = 20;

static void die(const char *what, int err)
{
	printf("ERROR %s: %d %s\n", what, err, err < 0 ? reftable_error_str(err) : "");
	fflush(stdout);
	exit(3);
}

static void put_hex(const uint8_t *p, size_t n)
{
	size_t i;
	if (n == 0 || p == NULL) {
		printf("-");
		return;
	}
	for (i = 0; i < n; i++)
		printf("%02x", p[i]);
}

static void put_hexstr(const char *s)
{
	put_hex((const uint8_t *)s, s ? strlen(s) : 0);
}

static void print_ref(struct reftable_ref_record *ref)
{
	printf("r ");
	put_hexstr(ref->refname);
	printf(" %" PRIu64 " ", ref->update_index);
	switch (ref->value_type) {
	case REFTABLE_REF_DELETION:
		printf("d");
		break;
	case REFTABLE_REF_VAL1:
		printf("1 ");
		put_hex(ref->value.val1, hash_size);
		break;
	case REFTABLE_REF_VAL2:
		printf("2 ");
		put_hex(ref->value.val2.value, hash_size);
		printf(" ");
		put_hex(ref->value.val2.target_value, hash_size);
		break;
	case REFTABLE_REF_SYMREF:
		printf("3 ");
		put_hexstr(ref->value.symref);
		break;
	default:
		printf("?%d", (int)ref->value_type);
	}
	printf("\n");
}

static void print_log(struct reftable_log_record *log)
{
	printf("g ");
	put_hexstr(log->refname);
	printf(" %" PRIu64 " ", log->update_index);
	if (log->value_type == REFTABLE_LOG_DELETION) {
		printf("d\n");
		return;
	}
	printf("u ");
	put_hex(log->value.update.old_hash, log->value.update.old_hash ? hash_size : 0);
	printf(" ");
	put_hex(log->value.update.new_hash, log->value.update.new_hash ? hash_size : 0);
	printf(" ");
	put_hexstr(log->value.update.name);
	printf(" ");
	put_hexstr(log->value.update.email);
	printf(" %" PRIu64 " %d ", log->value.update.time, (int)log->value.update.tz_offset);
	put_hexstr(log->value.update.message);
	printf("\n");
}

static int unhex(const char *s, uint8_t **out)
{
	size_t n, i;
	uint8_t *b;
	if (!strcmp(s, "-")) {
		*out = calloc(1, 1);
		return 0;
	}
	n = strlen(s) / 2;
	b = calloc(n + 1, 1);
	for (i = 0; i < n; i++) {
		unsigned v;
		sscanf(s + 2 * i, "%2x", &v);
		b[i] = (uint8_t)v;
	}
	*out = b;
	return (int)n;
}

static int drain_refs(struct reftable_iterator *it, int limit)
{
	int n = 0;
	while (limit <= 0 || n < limit) {
		struct reftable_ref_record ref = { NULL };
		int err = reftable_iterator_next_ref(it, &ref);
		if (err > 0)
			break;
		if (err < 0) {
			printf("ERROR next_ref: %d %s\n", err, reftable_error_str(err));
			return err;
		}
		print_ref(&ref);
		reftable_ref_record_release(&ref);
		n++;
	}
	return 0;
}

static int drain_logs(struct reftable_iterator *it, int limit)
{
	int n = 0;
	while (limit <= 0 || n < limit) {
		struct reftable_log_record log = { NULL };
		int err = reftable_iterator_next_log(it, &log);
		if (err > 0)
			break;
		if (err < 0) {
			printf("ERROR next_log: %d %s\n", err, reftable_error_str(err));
			return err;
		}
		print_log(&log);
		reftable_log_record_release(&log);
		n++;
	}
	return 0;
}

static struct reftable_reader *open_reader(const char *file)
{
	struct reftable_block_source src = { NULL };
	struct reftable_reader *rd = NULL;
	int err = reftable_block_source_from_file(&src, file);
	if (err < 0)
		die("block_source_from_file", err);
	err = reftable_new_reader(&rd, &src, file);
	if (err < 0)
		die("new_reader", err);
	hash_size = reftable_reader_hash_id(rd) == SHA256_ID ? 32 : 20;
	return rd;
}

/* ---- queries: a query file holds one query per line ------------------------------- */
static struct reftable_stack *query_stack = NULL;

static int run_queries(struct reftable_reader *rd, struct reftable_merged_table *mt, const char *qfile)
{
	FILE *f = fopen(qfile, "r");
	char *line = NULL;
	size_t cap = 0;
	if (!f)
		die("open query file", -errno);
	while (getline(&line, &cap, f) > 0) {
		char kind[32], a[4096], b[256];
		struct reftable_iterator it = { NULL };
		int err = 0;
		uint8_t *key = NULL;
		int n;
		a[0] = b[0] = 0;
		n = sscanf(line, "%31s %4095s %255s", kind, a, b);
		if (n < 1)
			continue;
		printf("Q %s", line);
		if (!strcmp(kind, "scan")) {
			err = rd ? reftable_reader_seek_ref(rd, &it, "") : reftable_merged_table_seek_ref(mt, &it, "");
			if (err < 0) {
				printf("ERROR seek_ref: %d\n", err);
			} else {
				drain_refs(&it, 0);
				reftable_iterator_destroy(&it);
			}
			memset(&it, 0, sizeof(it));
			err = rd ? reftable_reader_seek_log(rd, &it, "") : reftable_merged_table_seek_log(mt, &it, "");
			if (err < 0) {
				printf("ERROR seek_log: %d\n", err);
			} else {
				drain_logs(&it, 0);
				reftable_iterator_destroy(&it);
			}
		} else if (!strcmp(kind, "seekref")) {
			unhex(a, &key);
			err = rd ? reftable_reader_seek_ref(rd, &it, (char *)key) : reftable_merged_table_seek_ref(mt, &it, (char *)key);
			if (err < 0) {
				printf("ERROR seek_ref: %d\n", err);
			} else {
				drain_refs(&it, 8);
				reftable_iterator_destroy(&it);
			}
		} else if (!strcmp(kind, "seeklog")) {
			uint64_t ui = strtoull(b, NULL, 10);
			unhex(a, &key);
			err = rd ? reftable_reader_seek_log_at(rd, &it, (char *)key, ui) : reftable_merged_table_seek_log_at(mt, &it, (char *)key, ui);
			if (err < 0) {
				printf("ERROR seek_log: %d\n", err);
			} else {
				drain_logs(&it, 8);
				reftable_iterator_destroy(&it);
			}
		} else if (!strcmp(kind, "readref") && query_stack) {
			struct reftable_ref_record ref = { NULL };
			unhex(a, &key);
			err = reftable_stack_read_ref(query_stack, (char *)key, &ref);
			if (err < 0)
				printf("ERROR read_ref: %d\n", err);
			else if (err == 0)
				print_ref(&ref);
			reftable_ref_record_release(&ref);
		} else if (!strcmp(kind, "readlog") && query_stack) {
			struct reftable_log_record log = { NULL };
			unhex(a, &key);
			err = reftable_stack_read_log(query_stack, (char *)key, &log);
			if (err < 0)
				printf("ERROR read_log: %d\n", err);
			else if (err == 0)
				print_log(&log);
			reftable_log_record_release(&log);
		} else if (!strcmp(kind, "refsfor") && rd) {
			unhex(a, &key);
			err = reftable_reader_refs_for(rd, &it, key);
			if (err < 0) {
				printf("ERROR refs_for: %d\n", err);
			} else {
				drain_refs(&it, 0);
				reftable_iterator_destroy(&it);
			}
		}
		free(key);
		printf("END\n");
	}
	free(line);
	fclose(f);
	return 0;
}

/* ---- writing ---------------------------------------------------------------------- */
static ssize_t fd_write(void *arg, const void *data, size_t sz)
{
	int *fd = arg;
	return write(*fd, data, sz);
}

struct rec_file {
	FILE *f;
	uint64_t min, max;
	int set_limits;
	int stop_at_sep; /* stop at a line "---" (stack-apply) */
	int eof;
};

/* writes all records of the (rest of the) file / of one transaction */
static int write_records(struct reftable_writer *w, void *arg)
{
	struct rec_file *rf = arg;
	char *line = NULL;
	size_t cap = 0;
	int err = 0;
	ssize_t len;
	if (rf->set_limits)
		reftable_writer_set_limits(w, rf->min, rf->max);
	while ((len = getline(&line, &cap, rf->f)) > 0) {
		char *tok[12];
		int nt = 0;
		char *p;
		if (line[len - 1] == '\n')
			line[len - 1] = 0;
		if (!strcmp(line, "---")) {
			if (rf->stop_at_sep)
				goto done;
			continue;
		}
		for (p = strtok(line, " "); p && nt < 12; p = strtok(NULL, " "))
			tok[nt++] = p;
		if (nt < 4)
			continue;
		if (!strcmp(tok[0], "r")) {
			struct reftable_ref_record ref = { NULL };
			uint8_t *name = NULL, *v1 = NULL, *v2 = NULL;
			unhex(tok[1], &name);
			ref.refname = (char *)name;
			ref.update_index = strtoull(tok[2], NULL, 10);
			if (!strcmp(tok[3], "d")) {
				ref.value_type = REFTABLE_REF_DELETION;
			} else if (!strcmp(tok[3], "1")) {
				unhex(tok[4], &v1);
				ref.value_type = REFTABLE_REF_VAL1;
				ref.value.val1 = v1;
			} else if (!strcmp(tok[3], "2")) {
				unhex(tok[4], &v1);
				unhex(tok[5], &v2);
				ref.value_type = REFTABLE_REF_VAL2;
				ref.value.val2.value = v1;
				ref.value.val2.target_value = v2;
			} else {
				unhex(tok[4], &v1);
				ref.value_type = REFTABLE_REF_SYMREF;
				ref.value.symref = (char *)v1;
			}
			err = reftable_writer_add_ref(w, &ref);
			free(name);
			free(v1);
			free(v2);
		} else {
			struct reftable_log_record log = { NULL };
			uint8_t *name = NULL, *o = NULL, *n = NULL, *u = NULL, *e = NULL, *m = NULL;
			unhex(tok[1], &name);
			log.refname = (char *)name;
			log.update_index = strtoull(tok[2], NULL, 10);
			if (!strcmp(tok[3], "d")) {
				log.value_type = REFTABLE_LOG_DELETION;
			} else {
				log.value_type = REFTABLE_LOG_UPDATE;
				if (strcmp(tok[4], "-")) {
					unhex(tok[4], &o);
					log.value.update.old_hash = o;
				}
				if (strcmp(tok[5], "-")) {
					unhex(tok[5], &n);
					log.value.update.new_hash = n;
				}
				unhex(tok[6], &u);
				unhex(tok[7], &e);
				log.value.update.name = (char *)u;
				log.value.update.email = (char *)e;
				log.value.update.time = strtoull(tok[8], NULL, 10);
				log.value.update.tz_offset = (int16_t)atoi(tok[9]);
				unhex(tok[10], &m);
				log.value.update.message = (char *)m;
			}
			err = reftable_writer_add_log(w, &log);
			free(name);
			free(o);
			free(n);
			free(u);
			free(e);
			free(m);
		}
		if (err < 0) {
			free(line);
			return err;
		}
	}
	rf->eof = 1;
done:
	free(line);
	return 0;
}

static void parse_opts(int argc, char **argv, int from, struct reftable_write_options *o, struct rec_file *rf)
{
	int i;
	memset(o, 0, sizeof(*o));
	o->hash_id = SHA1_ID;
	for (i = from; i < argc; i++) {
		char *a = argv[i];
		if (!strncmp(a, "bs=", 3))
			o->block_size = (uint32_t)strtoul(a + 3, NULL, 10);
		else if (!strncmp(a, "ri=", 3))
			o->restart_interval = atoi(a + 3);
		else if (!strcmp(a, "unpadded"))
			o->unpadded = 1;
		else if (!strcmp(a, "skipobj"))
			o->skip_index_objects = 1;
		else if (!strcmp(a, "exact"))
			o->exact_log_message = 1;
		else if (!strcmp(a, "s256")) {
			o->hash_id = SHA256_ID;
			hash_size = 32;
		} else if (!strncmp(a, "min=", 4) && rf) {
			rf->min = strtoull(a + 4, NULL, 10);
			rf->set_limits = 1;
		} else if (!strncmp(a, "max=", 4) && rf) {
			rf->max = strtoull(a + 4, NULL, 10);
			rf->set_limits = 1;
		}
	}
}

/* applies the transactions of txnfile through the stack API, then the trailing words
   argv[from..] (compactall | expire=<time>,<min> | clean). Returns 0 or 3 (error printed). */
static int apply_txns(struct reftable_stack *st, const char *txnfile, int argc, char **argv, int from)
{
	int err;
	{
			struct rec_file rf = { NULL };
			rf.f = fopen(txnfile, "r");
			if (!rf.f)
				{ printf("ERROR open txns\n"); return 3; }
			rf.stop_at_sep = 1;
			while (!rf.eof) {
				/* "T <update index>": one transaction through reftable_stack_add;
				   "M <n>": one addition of n tables (each "T <ui>" + records + "---")
				   through new_addition / addition_add / addition_commit.
				   The update index must match what the stack / the addition expects. */
				char hdr[64];
				uint64_t ui;
				int ntab = 0;
				if (!fgets(hdr, sizeof(hdr), rf.f))
					break;
				if (sscanf(hdr, "M %d", &ntab) == 1) {
					struct reftable_addition *add = NULL;
					int k;
					err = reftable_stack_new_addition(&add, st);
					if (err < 0) {
						printf("ERROR new_addition: %d %s\n", err, reftable_error_str(err));
						return 3;
					}
					for (k = 0; k < ntab; k++) {
						if (!fgets(hdr, sizeof(hdr), rf.f) || sscanf(hdr, "T %" SCNu64, &ui) != 1) {
							printf("ERROR bad transaction file\n");
							return 3;
						}
						if (k == 0 && ui != reftable_stack_next_update_index(st)) {
							printf("ERROR update index: harness expects %" PRIu64 ", stack says %" PRIu64 "\n", ui, reftable_stack_next_update_index(st));
							return 3;
						}
						rf.min = rf.max = ui;
						rf.set_limits = 1;
						err = reftable_addition_add(add, write_records, &rf);
						if (err < 0) {
							printf("ERROR addition_add: %d %s\n", err, reftable_error_str(err));
							return 3;
						}
					}
					err = reftable_addition_commit(add);
					if (err < 0) {
						printf("ERROR addition_commit: %d %s\n", err, reftable_error_str(err));
						return 3;
					}
					reftable_addition_destroy(add);
					printf("ADDED-MULTI %d\n", ntab);
					continue;
				}
				if (sscanf(hdr, "T %" SCNu64, &ui) != 1)
					break;
				if (ui != reftable_stack_next_update_index(st)) {
					printf("ERROR update index: harness expects %" PRIu64 ", stack says %" PRIu64 "\n", ui, reftable_stack_next_update_index(st));
					return 3;
				}
				rf.min = rf.max = ui;
				rf.set_limits = 1;
				err = reftable_stack_add(st, write_records, &rf);
				if (err < 0) {
					printf("ERROR stack_add: %d %s\n", err, reftable_error_str(err));
					return 3;
				}
				printf("ADDED %" PRIu64 "\n", ui);
			}
			{
				/* trailing words: compactall | expire=<time>,<min update index> (a compact_all
				   with that expiry) | clean */
				int a;
				for (a = from; a < argc; a++) {
					if (!strcmp(argv[a], "compactall")) {
						err = reftable_stack_compact_all(st, NULL);
						if (err < 0) {
							printf("ERROR compact_all: %d %s\n", err, reftable_error_str(err));
							return 3;
						}
					} else if (!strncmp(argv[a], "expire=", 7)) {
						struct reftable_log_expiry_config ec = { 0 };
						char *comma = strchr(argv[a], ',');
						ec.time = strtoull(argv[a] + 7, NULL, 10);
						ec.min_update_index = comma ? strtoull(comma + 1, NULL, 10) : 0;
						err = reftable_stack_compact_all(st, &ec);
						if (err < 0) {
							printf("ERROR compact_all(expiry): %d %s\n", err, reftable_error_str(err));
							return 3;
						}
					} else if (!strcmp(argv[a], "clean")) {
						err = reftable_stack_clean(st);
						if (err < 0) {
							printf("ERROR clean: %d %s\n", err, reftable_error_str(err));
							return 3;
						}
					}
				}
			}
			fclose(rf.f);
	}
	return 0;
}

int main(int argc, char **argv)
{
	if (argc < 3) {
		fprintf(stderr, "usage: driver query-table FILE QUERIES | write-table RECORDS OUT opts.. | query-stack DIR QUERIES opts.. | stack-apply DIR TXNS opts..\n");
		return 2;
	}
	if (!strcmp(argv[1], "query-table")) {
		struct reftable_reader *rd = open_reader(argv[2]);
		printf("LIMITS %" PRIu64 " %" PRIu64 "\n", reftable_reader_min_update_index(rd), reftable_reader_max_update_index(rd));
		run_queries(rd, NULL, argv[3]);
		reftable_reader_free(rd);
		printf("OK\n");
		return 0;
	}
	if (!strcmp(argv[1], "write-table")) {
		struct reftable_write_options opts;
		struct rec_file rf = { NULL };
		struct reftable_writer *w;
		int fd, err;
		parse_opts(argc, argv, 4, &opts, &rf);
		rf.f = fopen(argv[2], "r");
		if (!rf.f)
			die("open records", -errno);
		fd = open(argv[3], O_CREAT | O_TRUNC | O_WRONLY, 0644);
		if (fd < 0)
			die("open out", -errno);
		w = reftable_new_writer(fd_write, &fd, &opts);
		err = write_records(w, &rf);
		if (err < 0) {
			printf("REJECTED %d %s\n", err, reftable_error_str(err));
			return 0;
		}
		err = reftable_writer_close(w);
		close(fd);
		if (err == REFTABLE_EMPTY_TABLE_ERROR) {
			printf("EMPTY\n");
			return 0;
		}
		if (err < 0) {
			printf("REJECTED %d %s\n", err, reftable_error_str(err));
			return 0;
		}
		reftable_writer_free(w);
		printf("OK\n");
		return 0;
	}
	if (!strcmp(argv[1], "stack-session")) {
		/* a long-lived C handle: commands on stdin, one per line:
		   reload | query <file> | apply <txnfile> [words..] | next | quit.
		   Every answer ends with a line "." */
		struct reftable_write_options opts;
		struct reftable_stack *st = NULL;
		char *line = NULL;
		size_t cap = 0;
		int err;
		parse_opts(argc, argv, 3, &opts, NULL);
		err = reftable_new_stack(&st, argv[2], opts);
		if (err < 0)
			die("new_stack", err);
		hash_size = opts.hash_id == SHA256_ID ? 32 : 20;
		printf("OPENED\n.\n");
		fflush(stdout);
		while (getline(&line, &cap, stdin) > 0) {
			char *w[8];
			int nw = 0;
			char *p;
			size_t l = strlen(line);
			if (l && line[l - 1] == '\n')
				line[l - 1] = 0;
			for (p = strtok(line, " "); p && nw < 8; p = strtok(NULL, " "))
				w[nw++] = p;
			if (!nw)
				continue;
			if (!strcmp(w[0], "quit"))
				break;
			if (!strcmp(w[0], "reload")) {
				err = reftable_stack_reload(st);
				printf("RELOADED %d\n", err);
			} else if (!strcmp(w[0], "next")) {
				printf("NEXT %" PRIu64 "\n", reftable_stack_next_update_index(st));
			} else if (!strcmp(w[0], "query") && nw > 1) {
				query_stack = st;
				run_queries(NULL, reftable_stack_merged_table(st), w[1]);
				printf("OK\n");
			} else if (!strcmp(w[0], "apply") && nw > 1) {
				if (!apply_txns(st, w[1], nw, w, 2))
					printf("OK\n");
			}
			printf(".\n");
			fflush(stdout);
		}
		free(line);
		reftable_stack_destroy(st);
		return 0;
	}
	if (!strcmp(argv[1], "query-stack") || !strcmp(argv[1], "stack-apply")) {
		struct reftable_write_options opts;
		struct reftable_stack *st = NULL;
		int err;
		parse_opts(argc, argv, 4, &opts, NULL);
		err = reftable_new_stack(&st, argv[2], opts);
		if (err < 0)
			die("new_stack", err);
		if (!strcmp(argv[1], "stack-apply")) {
			if (apply_txns(st, argv[3], argc, argv, 4))
				return 3;
		} else {
			struct reftable_merged_table *mt = reftable_stack_merged_table(st);
			hash_size = opts.hash_id == SHA256_ID ? 32 : 20;
			query_stack = st;
			run_queries(NULL, mt, argv[3]);
		}
		reftable_stack_destroy(st);
		printf("OK\n");
		return 0;
	}
	fprintf(stderr, "unknown command %s\n", argv[1]);
	return 2;
}
